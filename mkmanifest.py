#!/usr/bin/env python3
"""Regenerates MANIFEST.json from checks.json (single source of truth for the per-property commands)."""
import json, os
ROOT = os.path.dirname(os.path.abspath(__file__))
checks = json.load(open(os.path.join(ROOT, "checks.json")))
props = [json.loads(l) for l in open(os.path.join(ROOT, "properties.jsonl")) if l.strip()]
hooks = json.load(open(os.path.join(ROOT, "hooks.json")))
m = {
    "version": 1,
    "setup_cmd": "./setup.sh",
    "hooks": hooks,
    "engines": [{
        "name": "verifharness", "path": "harness",
        "serves_properties": sorted(checks),
        "kind_free_text": "Go module: pgregory.net/rapid v1.3.0 property tests and state machines, deterministic index-partitioned enumerations, native go test -fuzz targets (thorough tier), independent reference codecs/oracles in harness/ref; driven by ./check (python3 stdlib)"}],
    "checks": [],
    "notes": "Every check rebuilds its test binary from /repo's working tree (go.mod replace => /repo) with -tags verif. Exit 2 from ./check means inconclusive (build failure, timeout), never a violation. known_findings.json lists open and fixed findings; only open ones are tolerated and each is re-probed and printed as KNOWN-FINDING on every run.",
    "not_applicable": [],
}
for p in props:
    pid = p["id"]
    if pid in checks:
        c = checks[pid]
        m["checks"].append({
            "property_id": pid,
            "quick_cmd": "./check %s --tier quick" % pid,
            "thorough_cmd": "./check %s --tier thorough" % pid,
            "evidence_file": "/verif/evidence/%s.json" % pid,
            "replay_cmd_template": "./check replay %s {path}" % pid,
            "engine": "verifharness",
            "level_claimed": {"category": "exploration", "text": c["level_text"], "design_ref": c.get("design_ref", "DESIGN.md section 2, " + pid)},
            "level_note": c["level_note"],
            "technique": c["technique"],
        })
    else:
        m["not_applicable"].append({"property_id": pid, "reason": "not claimed yet: the check for this property has not been built at this commit (planned in DESIGN.md section 2)"})
json.dump(m, open(os.path.join(ROOT, "MANIFEST.json"), "w"), indent=1, ensure_ascii=False)
print("MANIFEST.json:", len(m["checks"]), "checks,", len(m["not_applicable"]), "not claimed")
