#!/opt/veriftools/pyvenv/bin/python3
import json,sys,glob,jsonschema
ok=True
m=json.load(open('/verif/MANIFEST.json')) if len(sys.argv)<2 or sys.argv[1]!='ev' else None
if m is not None:
    jsonschema.validate(m,json.load(open('/root/.vp/MANIFEST.schema.json'))); print('MANIFEST ok', len(m['checks']),'checks')
s=json.load(open('/root/.vp/EVIDENCE.schema.json'))
for f in sorted(glob.glob('/verif/evidence/*.json')):
    try:
        jsonschema.validate(json.load(open(f)),s); print('ok',f)
    except Exception as e:
        ok=False; print('BAD',f,str(e)[:300])
sys.exit(0 if ok else 1)
