#!/usr/bin/env python3
"""Crude PDF text extractor (stdlib only): FlateDecode, Standard RC4 encryption with empty
user password, per-page font resources, ToUnicode CMaps, literal and hex strings."""
import re, sys, zlib, hashlib, struct

PAD = bytes.fromhex('28BF4E5E4E758A4164004E56FFFA01082E2E00B6D0683E802F0CA9FE6453697A')

def unesc(b):
    out = bytearray(); i = 0
    mp = {ord('n'):10, ord('r'):13, ord('t'):9, ord('b'):8, ord('f'):12, 40:40, 41:41, 0x5c:0x5c}
    while i < len(b):
        c = b[i]
        if c == 0x5c and i + 1 < len(b):
            i += 1; d = b[i]
            if d in mp: out.append(mp[d]); i += 1
            elif 48 <= d <= 55:
                j = i; v = 0
                while j < i + 3 and j < len(b) and 48 <= b[j] <= 55: v = v * 8 + b[j] - 48; j += 1
                out.append(v & 255); i = j
            elif d in (10, 13): i += 1
            else: out.append(d); i += 1
        else:
            out.append(c); i += 1
    return bytes(out)

def rc4(key, data):
    S = list(range(256)); j = 0
    for i in range(256):
        j = (j + S[i] + key[i % len(key)]) & 255; S[i], S[j] = S[j], S[i]
    i = j = 0; out = bytearray()
    for c in data:
        i = (i + 1) & 255; j = (j + S[i]) & 255; S[i], S[j] = S[j], S[i]
        out.append(c ^ S[(S[i] + S[j]) & 255])
    return bytes(out)

def load(path):
    data = open(path, 'rb').read()
    key = None
    m = re.search(rb'/Encrypt (\d+) 0 R', data)
    if m:
        enc = re.search(rb'(?<![0-9])' + m.group(1) + rb' 0 obj(.*?)endobj', data, re.S).group(1)
        O = unesc(re.search(rb'/O\s*\((.*?)\)\s*/', enc, re.S).group(1))[:32]
        P = int(re.search(rb'/P (-?\d+)', enc).group(1))
        R = int(re.search(rb'/R (\d+)', enc).group(1))
        L = re.search(rb'/Length (\d+)', enc); n = int(L.group(1)) // 8 if L else 5
        ID0 = bytes.fromhex(re.search(rb'/ID\s*\[\s*<([0-9A-Fa-f]+)>', data).group(1).decode())
        h = hashlib.md5(PAD + O + struct.pack('<i', P) + ID0).digest()
        if R >= 3:
            for _ in range(50): h = hashlib.md5(h[:n]).digest()
        key = h[:n]
    objs = {}
    for mo in re.finditer(rb'(?<![0-9])(\d+) (\d+) obj', data):
        num, gen = int(mo.group(1)), int(mo.group(2))
        start = mo.end(); end = data.find(b'endobj', start); body = data[start:end]
        si = body.find(b'stream')
        if si < 0:
            objs[num] = (body, None); continue
        dic = body[:si]; s = body[si + 6:]
        if s[:2] == b'\r\n': s = s[2:]
        elif s[:1] == b'\n': s = s[1:]
        s = s[:s.rfind(b'endstream')]
        Lm = re.search(rb'/Length (\d+)(?!\d)(?!\s+\d+\s+R)', dic)
        if Lm: s = s[:int(Lm.group(1))]
        if key:
            ok = hashlib.md5(key + struct.pack('<I', num)[:3] + struct.pack('<H', gen)).digest()[:min(len(key) + 5, 16)]
            s = rc4(ok, s)
        d = s
        if b'FlateDecode' in dic:
            try: d = zlib.decompress(s)
            except Exception:
                try: d = zlib.decompressobj().decompress(s)
                except Exception: d = None
        objs[num] = (dic, d)
    return objs

def parse_cmap(d):
    mp = {}; width = 1
    for blk in re.findall(rb'begincodespacerange(.*?)endcodespacerange', d, re.S):
        for a, _ in re.findall(rb'<([0-9A-Fa-f]+)>\s*<([0-9A-Fa-f]+)>', blk): width = max(width, len(a) // 2)
    def u(hexs):
        try: return bytes.fromhex(hexs.decode()).decode('utf-16-be', 'replace')
        except Exception: return '?'
    for blk in re.findall(rb'beginbfchar(.*?)endbfchar', d, re.S):
        for a, b in re.findall(rb'<([0-9A-Fa-f]+)>\s*<([0-9A-Fa-f]+)>', blk): mp[int(a, 16)] = u(b)
    for blk in re.findall(rb'beginbfrange(.*?)endbfrange', d, re.S):
        for a, b, c in re.findall(rb'<([0-9A-Fa-f]+)>\s*<([0-9A-Fa-f]+)>\s*<([0-9A-Fa-f]+)>', blk):
            lo, hi, base = int(a, 16), int(b, 16), int(c, 16)
            for k in range(lo, min(hi, lo + 70000) + 1): mp[k] = chr(base + k - lo)
    return width, mp

def fonts_of(objs, dic):
    """font name -> (width, map) from a /Font << /F1 5 0 R ... >> found in dic or a referenced resources obj"""
    res = {}
    blobs = [dic]
    m = re.search(rb'/Resources (\d+) 0 R', dic)
    if m and int(m.group(1)) in objs: blobs.append(objs[int(m.group(1))][0])
    for blob in list(blobs):
        m = re.search(rb'/Font (\d+) 0 R', blob)
        if m and int(m.group(1)) in objs: blobs.append(b'/Font<<' + objs[int(m.group(1))][0] + b'>>')
    for blob in blobs:
        for fm in re.finditer(rb'/Font\s*<<(.*?)>>', blob, re.S):
            for nm, ref in re.findall(rb'/([A-Za-z0-9_+.-]+) (\d+) 0 R', fm.group(1)):
                fo = objs.get(int(ref))
                if not fo: continue
                tu = re.search(rb'/ToUnicode (\d+) 0 R', fo[0])
                if tu and objs.get(int(tu.group(1))) and objs[int(tu.group(1))][1]:
                    res[nm.decode()] = parse_cmap(objs[int(tu.group(1))][1])
                else:
                    res[nm.decode()] = None
    return res

TOK = re.compile(rb'/([A-Za-z0-9_+.-]+)\s+[-\d.]+\s+Tf|\(((?:[^()\\]|\\.)*)\)|<([0-9A-Fa-f\s]*)>|(\bET\b)|(\bT\*|\bTd\b|\bTD\b|\bTm\b)', re.S)

def page_text(content, fonts):
    out = []; cur = None
    def dec(b):
        if cur is None: return b.decode('latin1')
        w, mp = cur
        s = []
        for i in range(0, len(b) - w + 1, w):
            code = int.from_bytes(b[i:i + w], 'big'); s.append(mp.get(code, ''))
        return ''.join(s)
    for m in TOK.finditer(content):
        if m.group(1) is not None: cur = fonts.get(m.group(1).decode())
        elif m.group(2) is not None: out.append(dec(unesc(m.group(2))))
        elif m.group(3) is not None:
            h = re.sub(rb'\s', b'', m.group(3))
            if len(h) % 2: h += b'0'
            out.append(dec(bytes.fromhex(h.decode())))
        elif m.group(4) is not None: out.append('\n')
        else: out.append(' ')
    t = ''.join(out)
    t = re.sub(r'[ \t]+', ' ', t)
    return t

def extract(path):
    objs = load(path)
    pages = []
    for n, (dic, d) in sorted(objs.items()):
        if re.search(rb'/Type\s*/Page(?!s)', dic):
            fonts = fonts_of(objs, dic)
            refs = []
            m = re.search(rb'/Contents\s*\[(.*?)\]', dic, re.S)
            if m: refs = [int(x) for x in re.findall(rb'(\d+) 0 R', m.group(1))]
            else:
                m = re.search(rb'/Contents (\d+) 0 R', dic)
                if m: refs = [int(m.group(1))]
            content = b'\n'.join(objs[r][1] for r in refs if r in objs and objs[r][1])
            pages.append((n, page_text(content, fonts)))
    return pages

if __name__ == '__main__':
    pages = extract(sys.argv[1])
    # order pages by the printed page number if present; otherwise by object number
    out = open(sys.argv[2], 'w')
    for n, t in pages:
        out.write('\n===== page object %d =====\n' % n); out.write(t)
    out.close()
    print(sys.argv[1], 'pages', len(pages), 'chars', sum(len(t) for _, t in pages))
