#!/bin/sh
# Offline setup: compile every property test binary once so that the build cache is warm.
set -e
cd "$(dirname "$0")"
export GOFLAGS=-mod=mod GOPROXY=off GOSUMDB=off GOTOOLCHAIN=local
export GOCACHE="${GOCACHE:-$(pwd)/.cache/go-build}"
mkdir -p .bin .cache
cd harness
go build -o ../.bin/evmerge ./cmd/evmerge
for d in c[0-9][0-9]; do
  [ -d "$d" ] || continue
  flags=""
  [ "$d" = "c13" ] && flags="-race"
  go test -c -tags verif $flags -o ../.bin/$d.test ./$d
done
echo setup done
