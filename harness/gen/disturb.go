package gen

import (
	"bytes"
	"context"
	"io"
	"time"

	sms "github.com/hujm2023/go-sms-protocol"
	"github.com/hujm2023/go-sms-protocol/cmpp"
	"github.com/hujm2023/go-sms-protocol/codec"
	"github.com/hujm2023/go-sms-protocol/datacoding"
	g7 "github.com/hujm2023/go-sms-protocol/datacoding/gsm7encoding"
	"github.com/hujm2023/go-sms-protocol/packet"
	"github.com/hujm2023/go-sms-protocol/smgp"
	"github.com/hujm2023/go-sms-protocol/smgp/smgp30"
	"github.com/hujm2023/go-sms-protocol/smpp"
	"github.com/hujm2023/go-sms-protocol/smpp/smpp34"

	"verifharness/ref"
	"verifharness/vk"
)

// Disturb performs library calls that FAIL (refused encodes, truncated decodes, unrepresentable texts,
// messages that are too long, short reads) - deterministically chosen by n. vk.ReportSeq runs it between
// the evaluation of a case and the re-evaluation of the previous one: whatever a failed call leaves
// behind (a dirty pooled buffer, a sticky error in a recycled writer, a cached zero result) must not
// reach the next, well-formed call. The calls' own results are not judged here (that is C01/C03/C05/...'s
// business); a panic is swallowed for the same reason.
func Disturb(n uint64) {
	defer func() { _ = recover() }()
	sm := vk.SplitMix(n)
	ctx := context.Background()
	for round := 0; round < 2; round++ {
		switch (n + uint64(round)*7) % 14 {
		case 0: // encode refused: one fixed-width slot over-long, after earlier fields were written
			b := Bindings[sm.Intn(len(Bindings))]
			v := SeedVals(b, sm.Next(), 1, 5)
			var sl []ref.Field
			for _, f := range b.Spec.Fields {
				if f.Kind == ref.FixStr || f.Kind == ref.Bin || f.Kind == ref.HexID {
					sl = append(sl, f)
				}
			}
			if len(sl) > 0 {
				f := sl[sm.Intn(len(sl))]
				v.F[f.Name] = bytes.Repeat([]byte{'Z'}, f.W+1+sm.Intn(4))
				_, _ = b.Fill(v).IEncode()
			}
		case 1: // decode refused: image cut inside its mandatory part
			b := Bindings[sm.Intn(len(Bindings))]
			v := SeedVals(b, sm.Next(), 2, 9)
			if img := ref.Encode(b.Spec, v); len(img) > 13 {
				cut := 12 + sm.Intn(len(img)-12)
				_ = b.New().IDecode(img[:cut])
			}
		case 2: // GSM 7-bit: septets that fail after some characters were decoded; dangling escape
			_, _ = g7.Decode([]byte{0x74, 0x6f, 0x74, 0x61, 0x6c, 0x20, 0x35, 0x1b})
			_, _ = g7.Decode([]byte{0x41, 0x42, 0x80})
			_, _ = datacoding.GSM7Packed(g7.Pack([]byte{0x74, 0x6f, 0x74, 0x61, 0x6c, 0x1b, 0x00, 0x1b})).Decode()
			_, _ = datacoding.GSM7Unpacked([]byte{0x48, 0x69, 0x1b}).Decode()
			_, _ = g7.Encode("partly ok then 中")
		case 3: // texts outside the repertoire, after a representable prefix
			s := "delivered so far 中\U0001F600"
			_, _ = datacoding.Ascii(s).Encode()
			_, _ = datacoding.Latin1(s).Encode()
			_, _ = datacoding.GSM7Unpacked(s).Encode()
			_, _ = datacoding.GSM7Packed(s).Encode()
			_, _ = datacoding.UCS2([]byte{0x00, 0x41, 0xd8}).Decode()
			_, _ = datacoding.GB18030([]byte{0x41, 0x81}).Decode()
		case 4: // a message that needs more than 255 parts
			long := bytes.Repeat([]byte("abcdefghij"), 4000)
			_, _, _ = sms.EncodeSMPPContentAndSplit(ctx, string(long), datacoding.SMPPDataCoding(0), byte(n))
			_, _, _ = sms.EncodeCMPPContentAndSplit(ctx, string(long), datacoding.CMPPDataCoding(0), byte(n))
		case 5: // content decoders: unsupported coding numbers, malformed octets
			_, _ = sms.DecodeCMPPCContent(ctx, "abc", 7)
			_, _ = sms.DecodeSMPPCContent(ctx, "abc", 77)
			_, _ = sms.DecodeCMPPCContent(ctx, "\x00A\x00", 8)
		case 6: // optional-parameter parsers: truncated triplets after a complete one
			raw := []byte{0x02, 0x0c, 0x00, 0x02, 0x12, 0x34, 0x02, 0x0e, 0x00, 0x05, 0x01}
			_, _ = smpp.ReadTLVs(packet.NewPacketReader(append([]byte{}, raw...)))
			_ = smpp.ReadTLVs1(packet.NewPacketReader(append([]byte{}, raw...)))
			_, _ = smgp.ParseOptions(append([]byte{}, raw...))
			_ = smgp.ReadOptions(packet.NewPacketReader(append([]byte{}, raw...)))
		case 7: // packet primitives: a refused write after good ones, a short read after good ones
			w := packet.NewPacketWriter()
			w.WriteUint32(uint32(n))
			w.WriteCString("residue-of-a-refused-packet")
			w.WriteFixedLenString("too long for its slot", 4)
			w.WriteUint8(1)
			_, _ = w.BytesWithLength()
			w.Release()
			r := packet.NewPacketReader([]byte{1, 2, 3, 4, 5})
			_ = r.ReadUint32()
			_ = r.ReadCStringN(9)
			_ = r.ReadUint8()
		case 8: // text parsers on junk
			_ = cmpp.MsgIDString2Uint64("not-a-message-id")
			_ = cmpp.MsgIDString2Uint64("")
			_, _ = smpp.ToValidatePeriod(time.Unix(1700000000, 0), "36hours", true)
			_, _ = smpp.ToValidatePeriod(time.Unix(1700000000, 0), "-5m", false)
			_, _ = smpp34.ExtractDeliveryReceipt("id: sub: stat")
			_, _ = smgp30.ExtractDeliveryReceipt("id:12 Sub")
		case 9: // frame extractors: malformed prefix, incomplete frame
			for _, c := range []codec.Codec{codec.NewCMPPCodec(), codec.NewSMPPCodec()} {
				_, _ = c.DecodeBlocked(&miniConn{b: []byte{0, 0, 0, 2, 9, 9}})
				_, _ = c.DecodeBlocked(&miniConn{b: []byte{0, 0, 0, 40, 1, 2, 3}})
				_, _ = c.DecodeBlocked(&miniConn{b: []byte{0, 0}})
				_, _ = c.Decode(&miniConn{b: []byte{0, 0, 0, 1, 7}})
				_, _ = c.Decode(&miniConn{b: []byte{0, 0, 0, 30, 7}})
			}
		case 10: // status-report body refused after its first fields were written
			d := cmpp.SubPduDeliveryContent{MsgID: n, Stat: "DELIVRD", SubmitTime: "2401011200", DoneTime: "2401011201", DestTerminalID: "1380013800013800138000-too-long", SMSCSequence: 7}
			_, _ = d.IEncode()
			var e cmpp.SubPduDeliveryContent
			_ = e.IDecode([]byte("short"))
		case 11: // batch builder: nothing usable
			long := bytes.Repeat([]byte("中文"), 20000)
			_, _, _ = sms.NewBatchDataCodingEncoder().Protocol(sms.SMPP).Content(string(long), byte(n)).DataCodings([]datacoding.ProtocolDataCoding{datacoding.SMPPDataCoding(1), datacoding.SMPPDataCoding(8)}).Build(ctx)
			_, _, _ = sms.NewBatchDataCodingEncoder().Protocol(sms.CMPP).Content("", byte(n)).Build(ctx)
		case 12: // dispatchers: unknown command, short input
			_, _ = smpp34.DecodeSMPP34([]byte{0, 0, 0, 16, 0, 0, 0x7f, 0x7f, 0, 0, 0, 0, 0, 0, 0, 1})
			_, _ = smgp30.DecodeSMGP30([]byte{0, 0, 0, 12, 0, 0, 0, 0x77, 0, 0, 0, 1})
			_, _ = smpp34.DecodeSMPP34([]byte{0, 0, 0, 16, 0, 0})
		case 13: // over-long optional parameter, UCS-2 helpers on invalid UTF-8
			var tl smpp.TLVs
			tl.SetTLV(smpp.NewTLV(0x0424, make([]byte, 70000)))
			_ = tl.Bytes()
			_ = cmpp.Utf8ToUcs2Pooled("ok then \xff\xfe broken")
			_, _ = cmpp.Utf8ToUcs2("ok then \xff\xfe broken")
		}
	}
}

// miniConn: the smallest codec.ConnReader (everything buffered).
type miniConn struct{ b []byte }

func (m *miniConn) Read(p []byte) (int, error) {
	if len(m.b) == 0 {
		return 0, io.EOF
	}
	n := copy(p, m.b)
	m.b = m.b[n:]
	return n, nil
}

func (m *miniConn) Peek(n int) ([]byte, error) {
	if n > len(m.b) {
		return m.b, io.EOF
	}
	return m.b[:n], nil
}

func (m *miniConn) Discard(n int) (int, error) {
	if n > len(m.b) {
		n = len(m.b)
		m.b = nil
		return n, io.EOF
	}
	m.b = m.b[n:]
	return n, nil
}

func (m *miniConn) Size() int { return len(m.b) }
