package gen

import (
	"bytes"
	"encoding/binary"
	"fmt"
	"reflect"
	"sort"

	"verifharness/ref"
	"verifharness/vk"
)

// PCase is the JSON form of a PDU case in replay files.
type PCase struct {
	Vals  ref.JVals `json:"vals"`
	Note  string    `json:"note,omitempty"`
	Image string    `json:"image_hex,omitempty"`
	// Overlong clause: name of the field that was made too long (W+k)
	OverField string `json:"over_field,omitempty"`
}

func mkCase(b *Binding, v *ref.Vals, note string, img []byte) PCase {
	return PCase{Vals: ref.ToJ(b.Spec, v), Note: note, Image: vk.Hex(img)}
}

// guard runs one library call on a PDU case under recover and the hang watchdog.
func guard(kind string, b *Binding, v *ref.Vals, img []byte, f func()) string {
	return vk.Guarded(kind, b.Spec.ID()+"/hang", func() any { return mkCase(b, v, "", img) }, f)
}

// binClass describes the 0x00 content of the first Bin field that differs (known-finding keys).
func nulClass(x []byte) string {
	switch {
	case len(x) == 0:
		return "empty"
	case x[len(x)-1] == 0:
		return "ends-in-00"
	case bytes.IndexByte(x, 0) >= 0:
		return "contains-00"
	}
	return "no-00"
}

// firstDiffField extracts the field name from a ref.Diff message ("field X: ...").
func diffField(d string) string {
	var name string
	if _, err := fmt.Sscanf(d, "field %s", &name); err == nil {
		for len(name) > 0 && (name[len(name)-1] == ':' || name[len(name)-1] == ']') {
			if i := bytes.IndexByte([]byte(name), '['); i >= 0 {
				name = name[:i]
				break
			}
			name = name[:len(name)-1]
		}
		return name
	}
	return "header"
}

// Normalise applies the documented one-time normalisations of the encoders to
// an expected value: CMPP 2.0 submit defaults an all-zero part counter to 1/1.
func Normalise(b *Binding, v *ref.Vals) *ref.Vals {
	if b.Spec.ID() == "cmpp20.PduSubmit" && v.U("PkTotal") == 0 && v.U("PkNumber") == 0 {
		w := *v
		w.F = map[string]any{}
		for k, x := range v.F {
			w.F[k] = x
		}
		w.F["PkTotal"], w.F["PkNumber"] = uint64(1), uint64(1)
		return &w
	}
	return v
}

// diffKey classifies a field-wise difference: type / stage / field, and for
// binary fields the exact wrong observation (so that a listed finding
// tolerates only that observation).
func diffKey(b *Binding, stage, d string, want, got *ref.Vals) string {
	fld := diffField(d)
	key := b.Spec.ID() + "/" + stage + "/" + fld
	for _, f := range b.Spec.Fields {
		if f.Name == fld && f.Kind == ref.Bin {
			w, g := want.B(fld), got.B(fld)
			if len(w) > 0 && w[len(w)-1] == 0 && bytes.Equal(g, bytes.TrimRight(w, "\x00")) {
				key += "/trailing-00-stripped"
			} else {
				key += "/" + nulClass(w)
			}
		}
	}
	return key
}

// RoundTrip is the C01 oracle for one well-formed assignment.
func RoundTrip(b *Binding, v *ref.Vals) *vk.Violation {
	s := b.Spec
	p := b.Fill(v)
	var img []byte
	var err error
	if pn := guard("roundtrip", b, v, nil, func() { img, err = p.IEncode() }); pn != "" {
		return vk.Violf(s.ID()+"/encode/panic", mkCase(b, v, "", nil), "%s: IEncode panicked on a well-formed value\n%s", s.ID(), pn)
	}
	if err != nil {
		return vk.Violf(s.ID()+"/encode/error", mkCase(b, v, "", nil), "%s: IEncode failed on a well-formed value: %v", s.ID(), err)
	}
	c := mkCase(b, v, "", img)
	if s.Hdr != ref.HdrNone {
		if len(img) < 4 || int(binary.BigEndian.Uint32(img)) != len(img) {
			got := -1
			if len(img) >= 4 {
				got = int(binary.BigEndian.Uint32(img))
			}
			return vk.Violf(s.ID()+"/encode/length-prefix", c, "%s: header length field says %d, image has %d octets", s.ID(), got, len(img))
		}
	}
	q := b.New()
	if pn := guard("roundtrip", b, v, img, func() { err = q.IDecode(img) }); pn != "" {
		return vk.Violf(s.ID()+"/decode/panic", c, "%s: IDecode panicked on the encoder's own output\n%s", s.ID(), pn)
	}
	if err != nil {
		return vk.Violf(s.ID()+"/decode/error", c, "%s: IDecode failed on the encoder's own output: %v", s.ID(), err)
	}
	want := Normalise(b, v)
	got := b.Extract(q)
	if d := ref.Diff(s, want, got); d != "" {
		return vk.Violf(diffKey(b, "roundtrip", d, want, got), c, "%s: decode(encode(p)) differs from p (want vs got): %s", s.ID(), d)
	}
	if s.Hdr != ref.HdrNone && int(b.HeaderLength(q)) != len(img) {
		return vk.Violf(s.ID()+"/decode/header-length", c, "%s: decoded header length %d, image has %d octets", s.ID(), b.HeaderLength(q), len(img))
	}
	// The caller is done with both results and owns them: the image goes back to its buffer pool, the
	// decoded value is edited in place. Nothing the library hands out later may be affected (a value
	// served from a shared table or a memo shows up as a wrong answer in a later evaluation).
	OverwriteOwned(q)
	vk.Overwrite(img)
	return nil
}

// OverwriteOwned overwrites every byte slice a decoded value holds (bodies, optional-parameter values):
// the value belongs to the caller.
func OverwriteOwned(c Codec) {
	rv := reflect.ValueOf(c).Elem()
	for i := 0; i < rv.NumField(); i++ {
		f := rv.Field(i)
		if !rv.Type().Field(i).IsExported() {
			continue
		}
		switch {
		case f.Kind() == reflect.Slice && f.Type().Elem().Kind() == reflect.Uint8:
			vk.ScribbleSpare(f.Bytes())
			vk.Overwrite(f.Bytes())
		case f.Kind() == reflect.Map:
			it := f.MapRange()
			for it.Next() {
				if m := it.Value().MethodByName("Value"); m.IsValid() {
					if out := m.Call(nil); len(out) == 1 && out[0].Kind() == reflect.Slice && out[0].Type().Elem().Kind() == reflect.Uint8 {
						vk.ScribbleSpare(out[0].Bytes())
						vk.Overwrite(out[0].Bytes())
					}
				}
			}
		}
	}
}

// Overlong is the second clause of C01: field `name` of v holds more octets
// than its fixed-width slot; IEncode must fail and emit no bytes.
func Overlong(b *Binding, v *ref.Vals, name string) *vk.Violation {
	s := b.Spec
	p := b.Fill(v)
	var img []byte
	var err error
	c := mkCase(b, v, "overlong", nil)
	c.OverField = name
	if pn := guard("overlong", b, v, nil, func() { img, err = p.IEncode() }); pn != "" {
		return vk.Violf(s.ID()+"/overlong/panic/"+name, c, "%s: IEncode panicked on an over-long %s\n%s", s.ID(), name, pn)
	}
	if err == nil {
		c.Image = vk.Hex(img)
		return vk.Violf(s.ID()+"/overlong/accepted/"+name, c, "%s: IEncode accepted %s longer than its slot and emitted %d octets", s.ID(), name, len(img))
	}
	if len(img) != 0 {
		return vk.Violf(s.ID()+"/overlong/bytes-with-error/"+name, c, "%s: IEncode returned an error AND %d octets for over-long %s", s.ID(), len(img), name)
	}
	return nil
}

// SpecCmd maps the library command constant carried by v to the id the
// specification assigns (same flavour index for the SMPP binds).
func SpecCmd(b *Binding, v *ref.Vals) uint32 {
	for i, a := range b.LibAltCmd {
		if v.Cmd == a && v.Cmd != b.LibCmd {
			return b.Spec.AltCmd[i]
		}
	}
	return b.Spec.Cmd
}

func sortedTriplets(ts []ref.Triplet) []ref.Triplet {
	out := append([]ref.Triplet(nil), ts...)
	sort.Slice(out, func(i, j int) bool {
		if out[i].Tag != out[j].Tag {
			return out[i].Tag < out[j].Tag
		}
		return bytes.Compare(out[i].Val, out[j].Val) < 0
	})
	return out
}

// SameImage compares two images of a type: the mandatory part octet-for-octet
// and the optional tail as a multiset of triplets.
func SameImage(s *ref.PDUSpec, mand int, a, b []byte) string {
	if !s.HasTail() {
		if !bytes.Equal(a, b) {
			return firstDiff(a, b)
		}
		return ""
	}
	if len(a) < mand || len(b) < mand {
		return fmt.Sprintf("image shorter than the mandatory part (%d, %d < %d)", len(a), len(b), mand)
	}
	// the length word covers the tail: it must agree as well
	if !bytes.Equal(a[:mand], b[:mand]) {
		return firstDiff(a[:mand], b[:mand])
	}
	ta, _, ca := ref.ParseTriplets(a[mand:])
	tb, _, cb := ref.ParseTriplets(b[mand:])
	if !ca || !cb {
		return fmt.Sprintf("optional tail does not parse cleanly (reference %v, library %v)", ca, cb)
	}
	sa, sb := sortedTriplets(ta), sortedTriplets(tb)
	if len(sa) != len(sb) {
		return fmt.Sprintf("optional tail has %d vs %d triplets", len(sa), len(sb))
	}
	for i := range sa {
		if sa[i].Tag != sb[i].Tag || !bytes.Equal(sa[i].Val, sb[i].Val) {
			return fmt.Sprintf("optional tail differs at tag %#04x/%#04x", sa[i].Tag, sb[i].Tag)
		}
	}
	return ""
}

func firstDiff(a, b []byte) string {
	n := len(a)
	if len(b) < n {
		n = len(b)
	}
	for i := 0; i < n; i++ {
		if a[i] != b[i] {
			return fmt.Sprintf("octet %d: reference %#02x, library %#02x (lengths %d / %d)", i, a[i], b[i], len(a), len(b))
		}
	}
	return fmt.Sprintf("lengths differ: reference %d, library %d", len(a), len(b))
}

// offsetField names the table field that contains image offset off.
func offsetField(s *ref.PDUSpec, v *ref.Vals, off int) string {
	if off < 4 {
		return "length-prefix"
	}
	if off < s.HeaderLen() {
		return "header"
	}
	_, info, err := ref.Decode(s, ref.Encode(s, v))
	if err != nil {
		return "?"
	}
	best, bo := "?", -1
	for n, o := range info.Offsets {
		if o <= off && o > bo {
			best, bo = n, o
		}
	}
	return best
}

// LayoutEncode is the first half of the C02 oracle: the library's image equals
// the reference image assembled from the table alone.
func LayoutEncode(b *Binding, v *ref.Vals) *vk.Violation {
	s := b.Spec
	v = Normalise(b, v)
	rv := *v
	rv.Cmd = SpecCmd(b, v)
	refImg := ref.Encode(s, &rv)
	mand := ref.MandatoryLen(s, &rv)
	p := b.Fill(v)
	var img []byte
	var err error
	if pn := guard("layout-encode", b, v, refImg, func() { img, err = p.IEncode() }); pn != "" {
		return vk.Violf(s.ID()+"/encode/panic", mkCase(b, v, "", refImg), "%s: IEncode panicked\n%s", s.ID(), pn)
	}
	c := mkCase(b, v, "image_hex is the reference image", refImg)
	if err != nil {
		return vk.Violf(s.ID()+"/encode/error", c, "%s: IEncode failed on a well-formed value: %v", s.ID(), err)
	}
	if d := SameImage(s, mand, refImg, img); d != "" {
		if ext := ref.EncodeOpt(s, &rv, true); len(ext) != len(refImg) && bytes.Equal(ext, img) {
			return vk.Violf(s.ID()+"/layout/library-extension-field-appended", c, "%s: library image is the specified layout plus a member the specification does not define: %s\nlibrary   %x\nreference %x", s.ID(), d, clip(img), clip(refImg))
		}
		fld := "tail"
		var off int
		if _, e := fmt.Sscanf(d, "octet %d:", &off); e == nil {
			fld = offsetField(s, &rv, off)
		} else if len(refImg) != len(img) {
			fld = "length"
		}
		return vk.Violf(s.ID()+"/layout/"+fld, c, "%s: library image differs from the specified layout: %s\nlibrary   %x\nreference %x", s.ID(), d, clip(img), clip(refImg))
	}
	return nil
}

// LayoutDecode is the converse: the reference image decodes to exactly the
// values it carries.
func LayoutDecode(b *Binding, v *ref.Vals) *vk.Violation {
	s := b.Spec
	v = Normalise(b, v)
	rv := *v
	rv.Cmd = SpecCmd(b, v)
	refImg := ref.Encode(s, &rv)
	c := mkCase(b, v, "image_hex is the reference image", refImg)
	var err error
	q := b.New()
	if pn := guard("layout-decode", b, v, refImg, func() { err = q.IDecode(refImg) }); pn != "" {
		return vk.Violf(s.ID()+"/decode-ref/panic", c, "%s: IDecode panicked on a specification-conformant image\n%s", s.ID(), pn)
	}
	if err != nil {
		return vk.Violf(s.ID()+"/decode-ref/error", c, "%s: IDecode rejected a specification-conformant image: %v", s.ID(), err)
	}
	got := b.Extract(q)
	if d := ref.DiffOpt(s, &rv, got, true); d != "" {
		return vk.Violf(diffKey(b, "decode-ref", d, &rv, got), c, "%s: decoding the reference image gives other values (image vs decoded): %s", s.ID(), d)
	}
	return nil
}

func clip(b []byte) []byte {
	if len(b) > 600 {
		return b[:600]
	}
	return b
}

// HasHexID reports whether the type carries an SMGP message id.
func HasHexID(s *ref.PDUSpec) bool {
	for _, f := range s.Fields {
		if f.Kind == ref.HexID {
			return true
		}
	}
	return false
}

// LayoutEncodeRawID: the SMGP encoders also accept a message id given as its 10 raw octets; whatever
// those octets are (decimal-looking, hex-looking, binary) they go on the wire unchanged and come back
// as their hexadecimal form.
func LayoutEncodeRawID(b *Binding, v *ref.Vals) *vk.Violation {
	s := b.Spec
	rv := *v
	rv.Cmd = SpecCmd(b, v)
	refImg := ref.Encode(s, &rv)
	c := mkCase(b, v, "message id given as 10 raw octets", refImg)
	p := b.FillOpt(v, true)
	var img []byte
	var err error
	if pn := guard("layout-rawid", b, v, refImg, func() { img, err = p.IEncode() }); pn != "" {
		return vk.Violf(s.ID()+"/rawid/panic", c, "%s: IEncode panicked\n%s", s.ID(), pn)
	}
	if err != nil {
		return vk.Violf(s.ID()+"/rawid/error", c, "%s: IEncode failed for a raw 10-octet message id: %v", s.ID(), err)
	}
	q := b.New()
	if err = q.IDecode(img); err != nil {
		return vk.Violf(s.ID()+"/rawid/decode-error", c, "%s: own output rejected: %v", s.ID(), err)
	}
	if d := ref.DiffOpt(s, &rv, b.Extract(q), true); d != "" && s.ID() != "smgp30.ActiveTestResp" {
		v2 := *v
		return vk.Violf(diffKey(b, "rawid", d, &v2, b.Extract(q)), c, "%s: a message id given as raw octets does not reach the wire unchanged: %s", s.ID(), d)
	}
	return nil
}

// LayoutEncodeReused: one PDU VALUE is used for two messages - filled with v1 and encoded, then every
// member is set to v2 and it is encoded again (a sender that keeps one value per connection, or per part
// of a long message). The second image must be what a fresh value with the contents v2 encodes to (which
// LayoutEncode compares with the specification): nothing of the first message, and nothing the first
// encode left in the value, may show.
func LayoutEncodeReused(b *Binding, v1, v2 *ref.Vals) *vk.Violation {
	s := b.Spec
	v2 = Normalise(b, v2)
	var fresh, img []byte
	var e1, e2 error
	c := b.Fill(v1)
	if pn := guard("layout-reused", b, v2, nil, func() {
		_, _ = c.IEncode()
		b.FillInto(c, v2, false)
		img, e2 = c.IEncode()
		fresh, e1 = b.Fill(v2).IEncode()
	}); pn != "" {
		return vk.Violf(s.ID()+"/layout/reused-value/panic", mkCase(b, v2, "value used for another message before", nil), "%s: panic\n%s", s.ID(), pn)
	}
	if e1 != nil {
		return nil // LayoutEncode's business
	}
	cs := mkCase(b, v2, "the value had been filled with other contents and encoded before", fresh)
	if e2 != nil {
		return vk.Violf(s.ID()+"/layout/reused-value/encode-error", cs, "%s: a value that was encoded with other contents before does not encode its present contents: %v", s.ID(), e2)
	}
	if d := SameImage(s, ref.MandatoryLen(s, v2), fresh, img); d != "" {
		return vk.Violf(s.ID()+"/layout/reused-value", cs, "%s: a PDU value that had been encoded with other contents before encodes its present contents differently from a fresh value: %s\nreused %x\nfresh  %x", s.ID(), d, clip(img), clip(fresh))
	}
	return nil
}
