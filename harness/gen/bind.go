// Package gen binds the reference tables (package ref) to the library's types:
// constructors, reflection-based fill/extract, and the rapid generators that
// every property package shares.
package gen

import (
	"encoding/hex"
	"fmt"
	"reflect"

	sms "github.com/hujm2023/go-sms-protocol"
	"github.com/hujm2023/go-sms-protocol/cmpp"
	"github.com/hujm2023/go-sms-protocol/cmpp/cmpp20"
	"github.com/hujm2023/go-sms-protocol/cmpp/cmpp30"
	"github.com/hujm2023/go-sms-protocol/sgip"
	"github.com/hujm2023/go-sms-protocol/sgip/sgip12"
	"github.com/hujm2023/go-sms-protocol/smgp"
	"github.com/hujm2023/go-sms-protocol/smgp/smgp30"
	"github.com/hujm2023/go-sms-protocol/smpp"
	"github.com/hujm2023/go-sms-protocol/smpp/smpp34"

	"verifharness/ref"
)

// Codec is the part of sms.PDU that the CMPP status-report body also has.
type Codec interface {
	IEncode() ([]byte, error)
	IDecode([]byte) error
}

type Binding struct {
	Spec   *ref.PDUSpec
	New    func() Codec
	LibCmd uint32 // value of the library's named constant a user would put in the header
	// LibAltCmd: library constants for the alternative ids (SMPP bind flavours), same order as Spec.AltCmd
	LibAltCmd []uint32
}

var Bindings []*Binding
var byID = map[string]*Binding{}

func reg(proto, name string, n func() Codec, cmd uint32, alt ...uint32) {
	s := ref.Find(proto, name)
	if s == nil {
		panic("no spec for " + proto + "." + name)
	}
	b := &Binding{Spec: s, New: n, LibCmd: cmd, LibAltCmd: alt}
	Bindings = append(Bindings, b)
	byID[s.ID()] = b
}

func init() {
	reg("smpp34", "Bind", func() Codec { return new(smpp34.Bind) }, uint32(smpp.BIND_TRANSCEIVER), uint32(smpp.BIND_RECEIVER), uint32(smpp.BIND_TRANSMITTER))
	reg("smpp34", "BindResp", func() Codec { return new(smpp34.BindResp) }, uint32(smpp.BIND_TRANSCEIVER_RESP), uint32(smpp.BIND_RECEIVER_RESP), uint32(smpp.BIND_TRANSMITTER_RESP))
	reg("smpp34", "SubmitSm", func() Codec { return new(smpp34.SubmitSm) }, uint32(smpp.SUBMIT_SM))
	reg("smpp34", "SubmitSmResp", func() Codec { return new(smpp34.SubmitSmResp) }, uint32(smpp.SUBMIT_SM_RESP))
	reg("smpp34", "DeliverSm", func() Codec { return new(smpp34.DeliverSm) }, uint32(smpp.DELIVER_SM))
	reg("smpp34", "DeliverSmResp", func() Codec { return new(smpp34.DeliverSmResp) }, uint32(smpp.DELIVER_SM_RESP))
	reg("smpp34", "EnquireLink", func() Codec { return new(smpp34.EnquireLink) }, uint32(smpp.ENQUIRE_LINK))
	reg("smpp34", "EnquireLinkResp", func() Codec { return new(smpp34.EnquireLinkResp) }, uint32(smpp.ENQUIRE_LINK_RESP))
	reg("smpp34", "Unbind", func() Codec { return new(smpp34.Unbind) }, uint32(smpp.UNBIND))
	reg("smpp34", "UnBindResp", func() Codec { return new(smpp34.UnBindResp) }, uint32(smpp.UNBIND_RESP))
	reg("smpp34", "GenericNack", func() Codec { return new(smpp34.GenericNack) }, uint32(smpp.GENERIC_NACK))

	reg("cmpp20", "PduConnect", func() Codec { return new(cmpp20.PduConnect) }, uint32(cmpp.CommandConnect))
	reg("cmpp20", "PduConnectResp", func() Codec { return new(cmpp20.PduConnectResp) }, uint32(cmpp.CommandConnectResp))
	reg("cmpp20", "PduSubmit", func() Codec { return new(cmpp20.PduSubmit) }, uint32(cmpp.CommandSubmit))
	reg("cmpp20", "PduSubmitResp", func() Codec { return new(cmpp20.PduSubmitResp) }, uint32(cmpp.CommandSubmitResp))
	reg("cmpp20", "PduDeliver", func() Codec { return new(cmpp20.PduDeliver) }, uint32(cmpp.CommandDeliver))
	reg("cmpp20", "PduDeliverResp", func() Codec { return new(cmpp20.PduDeliverResp) }, uint32(cmpp.CommandDeliverResp))
	reg("cmpp20", "PduQuery", func() Codec { return new(cmpp20.PduQuery) }, uint32(cmpp.CommandQuery))
	reg("cmpp20", "PduQueryResp", func() Codec { return new(cmpp20.PduQueryResp) }, uint32(cmpp.CommandQueryResp))
	reg("cmpp20", "PduActiveTest", func() Codec { return new(cmpp20.PduActiveTest) }, uint32(cmpp.CommandActiveTest))
	reg("cmpp20", "PduActiveTestResp", func() Codec { return new(cmpp20.PduActiveTestResp) }, uint32(cmpp.CommandActiveTestResp))
	reg("cmpp20", "PduTerminate", func() Codec { return new(cmpp20.PduTerminate) }, uint32(cmpp.CommandTerminate))
	reg("cmpp20", "PduTerminateResp", func() Codec { return new(cmpp20.PduTerminateResp) }, uint32(cmpp.CommandTerminateResp))

	reg("cmpp30", "Connect", func() Codec { return new(cmpp30.Connect) }, uint32(cmpp.CommandConnect))
	reg("cmpp30", "ConnectResp", func() Codec { return new(cmpp30.ConnectResp) }, uint32(cmpp.CommandConnectResp))
	reg("cmpp30", "Submit", func() Codec { return new(cmpp30.Submit) }, uint32(cmpp.CommandSubmit))
	reg("cmpp30", "SubmitResp", func() Codec { return new(cmpp30.SubmitResp) }, uint32(cmpp.CommandSubmitResp))
	reg("cmpp30", "Deliver", func() Codec { return new(cmpp30.Deliver) }, uint32(cmpp.CommandDeliver))
	reg("cmpp30", "DeliverResp", func() Codec { return new(cmpp30.DeliverResp) }, uint32(cmpp.CommandDeliverResp))
	reg("cmpp30", "Query", func() Codec { return new(cmpp30.Query) }, uint32(cmpp.CommandQuery))
	reg("cmpp30", "QueryResp", func() Codec { return new(cmpp30.QueryResp) }, uint32(cmpp.CommandQueryResp))
	reg("cmpp30", "Cancel", func() Codec { return new(cmpp30.Cancel) }, uint32(cmpp.CommandCancel))
	reg("cmpp30", "CancelResp", func() Codec { return new(cmpp30.CancelResp) }, uint32(cmpp.CommandCancelResp))
	reg("cmpp30", "ActiveTest", func() Codec { return new(cmpp30.ActiveTest) }, uint32(cmpp.CommandActiveTest))
	reg("cmpp30", "ActiveTestResp", func() Codec { return new(cmpp30.ActiveTestResp) }, uint32(cmpp.CommandActiveTestResp))
	reg("cmpp30", "Terminate", func() Codec { return new(cmpp30.Terminate) }, uint32(cmpp.CommandTerminate))
	reg("cmpp30", "TerminateResp", func() Codec { return new(cmpp30.TerminateResp) }, uint32(cmpp.CommandTerminateResp))

	reg("sgip12", "Bind", func() Codec { return new(sgip12.Bind) }, uint32(sgip.SGIP_BIND))
	reg("sgip12", "BindResp", func() Codec { return new(sgip12.BindResp) }, uint32(sgip.SGIP_BIND_REP))
	reg("sgip12", "Unbind", func() Codec { return new(sgip12.Unbind) }, uint32(sgip.SGIP_UNBIND))
	reg("sgip12", "UnbindResp", func() Codec { return new(sgip12.UnbindResp) }, uint32(sgip.SGIP_UNBIND_REP))
	reg("sgip12", "Submit", func() Codec { return new(sgip12.Submit) }, uint32(sgip.SGIP_SUBMIT))
	reg("sgip12", "SubmitResp", func() Codec { return new(sgip12.SubmitResp) }, uint32(sgip.SGIP_SUBMIT_REP))
	reg("sgip12", "Deliver", func() Codec { return new(sgip12.Deliver) }, uint32(sgip.SGIP_DELIVER))
	reg("sgip12", "DeliverResp", func() Codec { return new(sgip12.DeliverResp) }, uint32(sgip.SGIP_DELIVER_REP))
	reg("sgip12", "Report", func() Codec { return new(sgip12.Report) }, uint32(sgip.SGIP_REPORT))
	reg("sgip12", "ReportResp", func() Codec { return new(sgip12.ReportResp) }, uint32(sgip.SGIP_REPORT_REP))

	reg("smgp30", "Login", func() Codec { return new(smgp30.Login) }, uint32(smgp.CommandLogin))
	reg("smgp30", "LoginResp", func() Codec { return new(smgp30.LoginResp) }, uint32(smgp.CommandLoginResp))
	reg("smgp30", "Submit", func() Codec { return new(smgp30.Submit) }, uint32(smgp.CommandSubmit))
	reg("smgp30", "SubmitResp", func() Codec { return new(smgp30.SubmitResp) }, uint32(smgp.CommandSubmitResp))
	reg("smgp30", "Deliver", func() Codec { return new(smgp30.Deliver) }, uint32(smgp.CommandDeliver))
	reg("smgp30", "DeliverResp", func() Codec { return new(smgp30.DeliverResp) }, uint32(smgp.CommandDeliverResp))
	reg("smgp30", "ActiveTest", func() Codec { return new(smgp30.ActiveTest) }, uint32(smgp.CommandActiveTest))
	reg("smgp30", "ActiveTestResp", func() Codec { return new(smgp30.ActiveTestResp) }, uint32(smgp.CommandActiveTestResp))
	reg("smgp30", "Exit", func() Codec { return new(smgp30.Exit) }, uint32(smgp.CommandExit))
	reg("smgp30", "ExitResp", func() Codec { return new(smgp30.ExitResp) }, uint32(smgp.CommandExitResp))

	reg("cmpp", "SubPduDeliveryContent", func() Codec { return new(cmpp.SubPduDeliveryContent) }, 0)
}

func ByID(id string) *Binding { return byID[id] }

// PDUs returns the bindings of the 57 real PDU types (without the status-report body).
func PDUs() []*Binding { return Bindings[:ref.NumPDUTypes] }

// AsPDU returns the value as sms.PDU (nil for the status-report body).
func AsPDU(c Codec) sms.PDU { p, _ := c.(sms.PDU); return p }

// ---------------------------------------------------------------- fill

// ExtraFields lists exported struct fields that are legitimately not in the
// wire table (none so far); CoverageSelfTest reports anything else.
var ExtraFields = map[string]bool{}

// Fill writes v into a fresh library value.
func (b *Binding) Fill(v *ref.Vals) Codec { return b.FillOpt(v, false) }

// FillOpt: with rawIDs the SMGP message ids are given as their 10 raw octets (the other form the
// encoders accept) instead of the 20-digit hexadecimal form the decoders produce.
func (b *Binding) FillOpt(v *ref.Vals, rawIDs bool) Codec {
	return b.FillInto(b.New(), v, rawIDs)
}

// FillInto assigns the fields of v to an EXISTING value (a PDU value that was used - encoded, decoded -
// before and is reused for the next message): every member the specification names is set, members that
// hold nil in v are reset.
func (b *Binding) FillInto(c Codec, v *ref.Vals, rawIDs bool) Codec {
	rv := reflect.ValueOf(c).Elem()
	if b.Spec.Hdr != ref.HdrNone {
		h := rv.FieldByName("Header")
		switch b.Spec.Hdr {
		case ref.HdrCMPP, ref.HdrSMGP:
			h.FieldByName("CommandID").SetUint(uint64(v.Cmd))
			h.FieldByName("SequenceID").SetUint(uint64(v.Seq[0]))
		case ref.HdrSMPP:
			h.FieldByName("ID").SetUint(uint64(v.Cmd))
			h.FieldByName("Status").SetUint(uint64(v.Status))
			h.FieldByName("Sequence").SetUint(uint64(v.Seq[0]))
		case ref.HdrSGIP:
			h.FieldByName("CommandID").SetUint(uint64(v.Cmd))
			h.FieldByName("Sequence").Set(reflect.ValueOf(v.Seq))
		}
	}
	for _, f := range b.Spec.Fields {
		fv := rv.FieldByName(f.Name)
		if !fv.IsValid() {
			panic(fmt.Sprintf("%s has no field %s", b.Spec.ID(), f.Name))
		}
		switch f.Kind {
		case ref.U8, ref.U16, ref.U32, ref.U64, ref.Count8, ref.Len8, ref.Len32:
			fv.SetUint(v.U(f.Name))
		case ref.FixStr, ref.CStr, ref.Bin:
			fv.SetString(string(v.B(f.Name)))
		case ref.HexID:
			if rawIDs {
				fv.SetString(string(v.B(f.Name)))
			} else {
				fv.SetString(hex.EncodeToString(v.B(f.Name)))
			}
		case ref.List:
			l := v.L(f.Name)
			if l == nil {
				fv.Set(reflect.Zero(fv.Type())) // nil slice
				continue
			}
			ss := make([]string, len(l))
			for i, x := range l {
				ss[i] = string(x)
			}
			fv.Set(reflect.ValueOf(ss))
		case ref.Body:
			if fv.Kind() == reflect.String {
				fv.SetString(string(v.B(f.Name)))
			} else if x := v.B(f.Name); x != nil {
				fv.SetBytes(append([]byte{}, x...))
			} else {
				fv.Set(reflect.Zero(fv.Type()))
			}
		case ref.Seq3:
			fv.Set(reflect.ValueOf(v.S3(f.Name)))
		case ref.TLVTail:
			ts := v.T(f.Name)
			if ts == nil {
				fv.Set(reflect.Zero(fv.Type()))
				continue
			}
			m := smpp.TLVs{}
			for _, t := range ts {
				m[t.Tag] = smpp.NewTLV(t.Tag, append([]byte{}, t.Val...))
			}
			fv.Set(reflect.ValueOf(m))
		case ref.OptTail:
			ts := v.T(f.Name)
			if ts == nil {
				fv.Set(reflect.Zero(fv.Type()))
				continue
			}
			m := smgp.Options{}
			for _, t := range ts {
				m[smgp.Tag(t.Tag)] = smgp.NewOption(smgp.Tag(t.Tag), append([]byte{}, t.Val...))
			}
			fv.Set(reflect.ValueOf(m))
		}
	}
	return c
}

// Extract reads a library value back into reference terms. HexID fields that
// do not hold valid hex are returned as the raw string bytes prefixed by
// "!nothex:" so that a comparison fails visibly.
func (b *Binding) Extract(c Codec) *ref.Vals {
	v := ref.NewVals()
	rv := reflect.ValueOf(c).Elem()
	if b.Spec.Hdr != ref.HdrNone {
		h := rv.FieldByName("Header")
		switch b.Spec.Hdr {
		case ref.HdrCMPP, ref.HdrSMGP:
			v.Cmd = uint32(h.FieldByName("CommandID").Uint())
			v.Seq[0] = uint32(h.FieldByName("SequenceID").Uint())
		case ref.HdrSMPP:
			v.Cmd = uint32(h.FieldByName("ID").Uint())
			v.Status = uint32(h.FieldByName("Status").Uint())
			v.Seq[0] = uint32(h.FieldByName("Sequence").Uint())
		case ref.HdrSGIP:
			v.Cmd = uint32(h.FieldByName("CommandID").Uint())
			s := h.FieldByName("Sequence")
			for i := 0; i < 3; i++ {
				v.Seq[i] = uint32(s.Index(i).Uint())
			}
		}
	}
	for _, f := range b.Spec.Fields {
		fv := rv.FieldByName(f.Name)
		switch f.Kind {
		case ref.U8, ref.U16, ref.U32, ref.U64, ref.Count8, ref.Len8, ref.Len32:
			v.F[f.Name] = fv.Uint()
		case ref.FixStr, ref.CStr, ref.Bin:
			v.F[f.Name] = []byte(fv.String())
		case ref.HexID:
			raw, err := hex.DecodeString(fv.String())
			if err != nil {
				raw = []byte("!nothex:" + fv.String())
			}
			v.F[f.Name] = raw
		case ref.List:
			var l [][]byte
			for i := 0; i < fv.Len(); i++ {
				l = append(l, []byte(fv.Index(i).String()))
			}
			v.F[f.Name] = l
		case ref.Body:
			if fv.Kind() == reflect.String {
				v.F[f.Name] = []byte(fv.String())
			} else {
				v.F[f.Name] = append([]byte{}, fv.Bytes()...)
			}
		case ref.Seq3:
			var q [3]uint32
			for i := 0; i < 3; i++ {
				q[i] = uint32(fv.Index(i).Uint())
			}
			v.F[f.Name] = q
		case ref.TLVTail, ref.OptTail:
			var ts []ref.Triplet
			it := fv.MapRange()
			for it.Next() {
				tag := uint16(it.Key().Uint())
				val := it.Value().FieldByName("value")
				ts = append(ts, ref.Triplet{Tag: tag, Val: append([]byte{}, val.Bytes()...)})
			}
			v.F[f.Name] = ts
		}
	}
	return v
}

// HeaderLength returns the length member of the PDU's header (0 for the body type).
func (b *Binding) HeaderLength(c Codec) uint32 {
	if b.Spec.Hdr == ref.HdrNone {
		return 0
	}
	h := reflect.ValueOf(c).Elem().FieldByName("Header")
	if b.Spec.Hdr == ref.HdrSMPP {
		return uint32(h.FieldByName("Length").Uint())
	}
	return uint32(h.FieldByName("TotalLength").Uint())
}

// CoverageSelfTest asserts that every exported field of every PDU struct is
// covered by exactly one table entry (plus the header), so that a field added
// to the library cannot silently escape the checks.
func CoverageSelfTest() []string {
	var problems []string
	for _, b := range Bindings {
		rt := reflect.TypeOf(b.New()).Elem()
		want := map[string]int{}
		for _, f := range b.Spec.Fields {
			want[f.Name]++
		}
		for i := 0; i < rt.NumField(); i++ {
			sf := rt.Field(i)
			if !sf.IsExported() {
				continue
			}
			if sf.Name == "Header" {
				if b.Spec.Hdr == ref.HdrNone {
					problems = append(problems, b.Spec.ID()+": unexpected Header")
				}
				continue
			}
			if ExtraFields[b.Spec.ID()+"."+sf.Name] {
				continue
			}
			if want[sf.Name] != 1 {
				problems = append(problems, fmt.Sprintf("%s: struct field %s is not covered by exactly one table entry", b.Spec.ID(), sf.Name))
			}
			delete(want, sf.Name)
		}
		for n := range want {
			problems = append(problems, fmt.Sprintf("%s: table entry %s has no struct field", b.Spec.ID(), n))
		}
	}
	if len(Bindings) != ref.NumPDUTypes+1 {
		problems = append(problems, fmt.Sprintf("expected %d bindings, have %d", ref.NumPDUTypes+1, len(Bindings)))
	}
	return problems
}
