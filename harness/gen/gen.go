package gen

import (
	"fmt"

	"pgregory.net/rapid"

	"verifharness/ref"
	"verifharness/vk"
)

// Opts tunes the well-formed value generator.
type Opts struct {
	BigBodies bool // SGIP 32-bit length: allow bodies up to 64 KiB
	BigTails  bool // optional values at the boundary sizes (up to 65531)
	NoTails   bool
	// MaxTriplets caps the number of optional parameters (0 = no cap). With at
	// most one parameter the serialisation does not depend on map order.
	MaxTriplets int
}

// UintW draws an unsigned integer of the given bit width over its full range
// with bias towards the boundaries.
func UintW(bits uint) *rapid.Generator[uint64] {
	max := uint64(1)<<bits - 1
	if bits == 64 {
		max = ^uint64(0)
	}
	edges := []uint64{0, 1, 0x7f, 0x80, 0xff, max, max - 1, max >> 1, max>>1 + 1}
	var e []uint64
	for _, x := range edges {
		if x <= max {
			e = append(e, x)
		}
	}
	return rapid.OneOf(rapid.Uint64Range(0, max), rapid.SampledFrom(e))
}

// enumerated 8-bit fields: the values the specifications define for them are what peers send and what code
// branches on, so they are drawn with weight next to the full range.
var u8Enums = map[string][]uint64{
	"DataCoding": {0, 1, 3, 4, 8, 0x0f, 0xf0, 0xf5}, "MsgFmt": {0, 3, 4, 8, 9, 15}, "MsgFormat": {0, 3, 4, 8, 15}, "MessageCoding": {0, 3, 4, 8, 15},
	"ESMClass":           {0x00, 0x01, 0x02, 0x03, 0x04, 0x08, 0x10, 0x20, 0x40, 0x80, 0x44, 0x48, 0xc0, 0x24, 0x3c, 0x43},
	"RegisteredDelivery": {0, 1, 2, 0x10, 0x11}, "ProtocolID": {0, 0x3f, 0x7f}, "Version": {0x20, 0x21, 0x30, 0x12, 0x13}, "InterfaceVersion": {0x33, 0x34, 0x50},
}

// U8For: generator for the named 8-bit field.
func U8For(name string) *rapid.Generator[uint64] {
	small := rapid.SampledFrom([]uint64{0, 1, 2, 3, 4, 5, 8, 9, 15})
	if e, ok := u8Enums[name]; ok {
		return rapid.OneOf(UintW(8), rapid.SampledFrom(e), rapid.SampledFrom(e), small)
	}
	return rapid.OneOf(UintW(8), UintW(8), small)
}

// fillBytes derives n octets from a seed; lo..255 is the value range.
func fillBytes(seed uint64, n int, lo int) []byte {
	s := vk.SplitMix(seed)
	out := make([]byte, n)
	for i := 0; i < n; i += 8 {
		x := s.Next()
		for j := 0; j < 8 && i+j < n; j++ {
			b := byte(x >> (8 * j))
			if int(b) < lo {
				b = byte(lo) + b
			}
			out[i+j] = b
		}
	}
	return out
}

// Text draws a NUL-free octet string of length 0..max, biased to 0, max and printable content.
func Text(max int) *rapid.Generator[[]byte] {
	return rapid.Custom(func(t *rapid.T) []byte {
		if max <= 0 {
			return []byte{}
		}
		var n int
		switch rapid.IntRange(0, 5).Draw(t, "lenclass") {
		case 0:
			n = 0
		case 1:
			n = max
		default:
			n = rapid.IntRange(0, max).Draw(t, "len")
		}
		if n <= 32 {
			switch rapid.IntRange(0, 7).Draw(t, "textclass") {
			case 0, 1, 2:
				return rapid.SliceOfN(rapid.ByteRange(0x20, 0x7e), n, n).Draw(t, "text")
			case 3:
				// what real traffic carries: subscriber numbers (with +86 / 86 / 00 prefixes), short codes, service ids
				v := []byte(rapid.SampledFrom(realistic).Draw(t, "realistic"))
				if len(v) > max {
					v = v[:max]
				}
				return v
			case 4:
				// decimal digits only / leading or trailing blanks
				b := rapid.SliceOfN(rapid.ByteRange('0', '9'), n, n).Draw(t, "digits")
				if n > 0 && rapid.Bool().Draw(t, "blank") {
					if rapid.Bool().Draw(t, "lead") {
						b[0] = ' '
					} else {
						b[n-1] = ' '
					}
				}
				return b
			default:
				return rapid.SliceOfN(rapid.ByteRange(1, 255), n, n).Draw(t, "text")
			}
		}
		return fillBytes(rapid.Uint64().Draw(t, "textseed"), n, 1)
	})
}

var realistic = []string{"+8613800138000", "8613800138000", "008613800138000", "13800138000", "10086", "1065712345678", "+86", "86", "+", "+8", "HELP", "MSC00001", "DELIVRD", "id:1 stat:OK", "0000000000", "00", "99", " 10086", "10086 ", "a b", "submit", "done date"}

// Binary draws exactly n octets over all byte values, with 0x00 steered to the
// first, last or an interior position in a good share of the cases.
func Binary(n int) *rapid.Generator[[]byte] {
	return rapid.Custom(func(t *rapid.T) []byte {
		b := rapid.SliceOfN(rapid.Byte(), n, n).Draw(t, "bin")
		switch rapid.IntRange(0, 9).Draw(t, "binclass") {
		case 0: // octets that read as decimal text (BCD-looking ids, numeric digests)
			for i := range b {
				b[i] = '0' + b[i]%10
			}
			return b
		case 1: // octets that read as hexadecimal text
			for i := range b {
				b[i] = "0123456789abcdefABCDEF"[int(b[i])%22]
			}
			return b
		case 2: // one value repeated
			for i := range b {
				b[i] = b[0]
			}
			return b
		}
		switch rapid.IntRange(0, 5).Draw(t, "nulpos") {
		case 0:
			b[0] = 0
		case 1:
			b[n-1] = 0
		case 2:
			b[rapid.IntRange(0, n-1).Draw(t, "nulat")] = 0
		}
		return b
	})
}

// BodyBytes draws n octets over all byte values.
func BodyBytes(t *rapid.T, n int, label string) []byte {
	var b []byte
	if n <= 24 {
		b = rapid.SliceOfN(rapid.Byte(), n, n).Draw(t, label)
	} else {
		b = fillBytes(rapid.Uint64().Draw(t, label+"seed"), n, 0)
	}
	// message bodies are not arbitrary in practice: they begin with a concatenation header, hold a delivery
	// receipt, or plain text - the shapes code is most likely to look at
	switch rapid.IntRange(0, 11).Draw(t, label+"shape") {
	case 0:
		if n >= 6 {
			total := byte(rapid.IntRange(2, 5).Draw(t, label+"udhtotal"))
			copy(b, []byte{5, 0, 3, b[3], total, 1 + b[5]%total})
		}
	case 1:
		if n >= 7 {
			total := byte(rapid.IntRange(2, 5).Draw(t, label+"udhtotal7"))
			copy(b, []byte{6, 8, 4, b[3], b[4], total, 1 + b[6]%total})
		}
	case 2:
		copy(b, "id:0123456789 sub:001 dlvrd:001 submit date:2401011200 done date:2401011201 stat:DELIVRD err:000 text:hello")
	case 3:
		for i := range b {
			b[i] = 0x20 + b[i]%0x5f
		}
	case 4:
		// text as the encoders of other stacks emit it: byte-order mark in front (UTF-16 BE/LE, UTF-8)
		copy(b, [][]byte{{0xfe, 0xff}, {0xff, 0xfe}, {0xef, 0xbb, 0xbf}}[rapid.IntRange(0, 2).Draw(t, label+"bom")])
	case 5:
		// UCS-2 text: zero high octets
		for i := 0; i+1 < len(b); i += 2 {
			b[i], b[i+1] = 0, 0x20+b[i+1]%0x5f
		}
	}
	return b
}

// counts and lengths are drawn through OneOf so that a failing case shrinks
// towards the smallest count/length that still fails (first alternative, then
// its lower bound).
var countGen = rapid.OneOf(
	rapid.IntRange(0, 255),
	rapid.IntRange(0, 12),
	rapid.SampledFrom([]int{0, 1, 12, 13, 14, 99, 100, 127, 128, 254, 255}),
	rapid.IntRange(13, 99),
)

var len8Gen = rapid.OneOf(
	rapid.IntRange(0, 255),
	rapid.SampledFrom([]int{0, 1, 127, 128, 140, 159, 160, 254, 255}),
	rapid.IntRange(0, 160),
)

func drawCount(t *rapid.T, label string) int { return countGen.Draw(t, label) }
func drawLen8(t *rapid.T, label string) int  { return len8Gen.Draw(t, label) }

var tailSizes = []int{65531, 65530, 32768, 65000, 4096, 4095, 4097, 32767, 32769, 16384, 8192, 1024}

// NamedTags: the optional-parameter tags SMPP 3.4 (section 5.3.2) and SMGP 3.0.3
// (section 6.3) define - the ones real peers send and the ones code is likely
// to special-case - plus the numeric edges.
var NamedTags = []uint16{
	0x0005, 0x0006, 0x0007, 0x0008, 0x000D, 0x000E, 0x000F, 0x0010, 0x0011, 0x0017, 0x0019, 0x001D, 0x001E, 0x0030,
	0x0201, 0x0202, 0x0203, 0x0204, 0x0205, 0x020A, 0x020B, 0x020C, 0x020D, 0x020E, 0x020F, 0x0210,
	0x0302, 0x0303, 0x0304, 0x0381, 0x0420, 0x0421, 0x0422, 0x0423, 0x0424, 0x0425, 0x0426, 0x0427,
	0x0501, 0x1201, 0x1203, 0x1204, 0x120A, 0x130C, 0x1380, 0x1381, 0x1383, 0x1400, 0x1401, 0x3FFF, 0x4000,
	0x0001, 0x0002, 0x0003, 0x0004, 0x0009, 0x000A, 0x000B, 0x000C, 0x0012, 0x0013,
	0x0000, 0x00FF, 0x0100, 0x7FFF, 0x8000, 0xFFFE, 0xFFFF,
}

// SpecLen: the value sizes the specifications prescribe for the named tags (SMPP 3.4 section 5.3.2.x, SMGP
// 3.0.3 section 6.3.x): {min, max} octets. Real peers send these tags with these sizes, and code that
// interprets a parameter does so at its specified size. The two tag spaces overlap (0x0001..0x0012 are SMGP
// tags), which is harmless: both containers are generic.
var SpecLen = map[uint16][2]int{
	// SMPP
	0x0005: {1, 1}, 0x0006: {1, 1}, 0x0007: {1, 1}, 0x0008: {2, 2}, 0x000D: {1, 1}, 0x000E: {1, 1}, 0x000F: {1, 1}, 0x0010: {1, 1},
	0x0017: {4, 4}, 0x0019: {1, 1}, 0x001D: {1, 256}, 0x001E: {1, 65}, 0x0030: {1, 1}, 0x0201: {1, 1}, 0x0202: {2, 23}, 0x0203: {2, 23},
	0x0204: {2, 2}, 0x0205: {1, 1}, 0x020A: {2, 2}, 0x020B: {2, 2}, 0x020C: {2, 2}, 0x020D: {1, 1}, 0x020E: {1, 1}, 0x020F: {1, 1},
	0x0210: {1, 1}, 0x0302: {1, 1}, 0x0303: {1, 65}, 0x0304: {1, 1}, 0x0381: {4, 19}, 0x0420: {1, 1}, 0x0421: {1, 1}, 0x0422: {1, 1},
	0x0423: {3, 3}, 0x0424: {1, 300}, 0x0425: {1, 1}, 0x0426: {1, 1}, 0x0427: {1, 1}, 0x0501: {1, 1}, 0x1201: {1, 1}, 0x1203: {2, 2},
	0x1204: {1, 1}, 0x130C: {0, 0}, 0x1380: {1, 1}, 0x1381: {2, 2},
	// SMGP
	0x0001: {1, 1}, 0x0002: {1, 1}, 0x0003: {20, 20}, 0x0004: {1, 1}, 0x0009: {1, 1}, 0x000A: {1, 1}, 0x000B: {1, 1}, 0x000C: {1, 1},
	0x0011: {1, 1}, 0x0012: {21, 21}, 0x0013: {1, 1},
}

// SpecValue draws a value of the size the specification prescribes for the tag, with the contents such a
// parameter carries in practice: small numbers (0, 1, 2, 255) for the numeric ones, text padded with NULs
// (or not) for the fixed-width text ones. ok=false when the tag has no prescribed size.
func SpecValue(t *rapid.T, tag uint16, label string) ([]byte, bool) {
	r, ok := SpecLen[tag]
	if !ok {
		return nil, false
	}
	n := r[0]
	if r[1] > r[0] {
		n = rapid.OneOf(rapid.IntRange(r[0], r[1]), rapid.SampledFrom([]int{r[0], r[1]})).Draw(t, label+"speclen")
	}
	b := make([]byte, n)
	switch {
	case n <= 4:
		// big-endian small number, or arbitrary
		switch rapid.IntRange(0, 3).Draw(t, label+"specnum") {
		case 0:
			if n > 0 {
				b[n-1] = rapid.SampledFrom([]byte{0, 1, 1, 2, 3, 255}).Draw(t, label+"specsmall")
			}
		case 1:
			for i := range b {
				b[i] = rapid.SampledFrom([]byte{0, 1, 0xff}).Draw(t, fmt.Sprintf("%sspecb%d", label, i))
			}
		default:
			copy(b, rapid.SliceOfN(rapid.Byte(), n, n).Draw(t, label+"specraw"))
		}
	default:
		// text: digits/letters, then NUL padding of a drawn length (possibly none)
		used := rapid.OneOf(rapid.IntRange(0, n), rapid.SampledFrom([]int{n, n - 1, 1})).Draw(t, label+"specused")
		for i := 0; i < used; i++ {
			b[i] = "0123456789ABCDEFabcxyz+-_ "[rapid.IntRange(0, 25).Draw(t, fmt.Sprintf("%sspecc%d", label, i))]
		}
	}
	return b, true
}

// TagGen draws an optional-parameter tag: named tags, small numbers and the full 16-bit range.
var TagGen = rapid.OneOf(rapid.SampledFrom(NamedTags), rapid.Uint16(), rapid.Uint16Range(0, 0x20), rapid.SampledFrom(NamedTags))

// DrawTriplets draws 0..n optional parameters with distinct tags.
func DrawTriplets(t *rapid.T, o Opts, label string) []ref.Triplet {
	var n int
	switch rapid.IntRange(0, 5).Draw(t, label+"nclass") {
	case 0, 1:
		n = 0
	case 2:
		n = 1
	case 3:
		n = rapid.IntRange(2, 8).Draw(t, label+"n")
		if rapid.IntRange(0, 9).Draw(t, label+"many") == 0 {
			n = rapid.IntRange(33, 120).Draw(t, label+"nmany") // more parameters than any specification defines tags for
		}
	default:
		n = rapid.IntRange(2, 8).Draw(t, label+"n")
	}
	if o.MaxTriplets > 0 && n > o.MaxTriplets {
		n = o.MaxTriplets
	}
	if n == 0 {
		if rapid.Bool().Draw(t, label+"nil") {
			return nil
		}
		return []ref.Triplet{}
	}
	tags := rapid.SliceOfNDistinct(TagGen, n, n, rapid.ID[uint16]).Draw(t, label+"tags")
	if n >= 3 && (o.MaxTriplets == 0 || o.MaxTriplets >= 3) && rapid.IntRange(0, 5).Draw(t, label+"sarset") == 0 {
		// the three segmentation parameters travel together
		tags = append([]uint16{0x020C, 0x020E, 0x020F}, without(tags, 0x020C, 0x020E, 0x020F)...)[:n]
	}
	ts := make([]ref.Triplet, n)
	bigBudget := 1
	shaped := rapid.IntRange(0, 2).Draw(t, label+"specshaped") == 0 // all named tags at their prescribed sizes
	var total byte
	for i, tag := range tags {
		if shaped || rapid.IntRange(0, 3).Draw(t, fmt.Sprintf("%sspec%d", label, i)) == 0 {
			if val, ok := SpecValue(t, tag, fmt.Sprintf("%s%d", label, i)); ok {
				// coherent segmentation counters: total 1..4 and a sequence number within it
				if tag == 0x020E && len(val) == 1 {
					total = byte(rapid.IntRange(1, 4).Draw(t, label+"sartotal"))
					val[0] = total
				}
				if tag == 0x020F && len(val) == 1 && total > 0 {
					val[0] = byte(rapid.IntRange(1, int(total)).Draw(t, label+"sarseq"))
				}
				ts[i] = ref.Triplet{Tag: tag, Val: val}
				continue
			}
		}
		var l int
		switch c := rapid.IntRange(0, 9).Draw(t, fmt.Sprintf("%svlen%dclass", label, i)); {
		case c == 0:
			l = 0
		case c == 1 && o.BigTails && bigBudget > 0:
			l = rapid.SampledFrom(tailSizes).Draw(t, fmt.Sprintf("%svlenbig%d", label, i))
			bigBudget--
		case c == 2:
			l = rapid.SampledFrom([]int{1, 2, 255, 256, 257}).Draw(t, fmt.Sprintf("%svlenb%d", label, i))
		default:
			l = rapid.IntRange(1, 20).Draw(t, fmt.Sprintf("%svlen%d", label, i))
		}
		ts[i] = ref.Triplet{Tag: tag, Val: BodyBytes(t, l, fmt.Sprintf("%sval%d", label, i))}
	}
	return ts
}

func without(tags []uint16, drop ...uint16) []uint16 {
	var out []uint16
	for _, t := range tags {
		keep := true
		for _, d := range drop {
			if t == d {
				keep = false
			}
		}
		if keep {
			out = append(out, t)
		}
	}
	return out
}

// DrawVals draws a well-formed field assignment for the PDU type: declared
// counts and lengths equal the actual ones, text without NUL and no longer
// than its slot, binary fields at exactly their width.
func DrawVals(t *rapid.T, b *Binding, o Opts) *ref.Vals {
	s := b.Spec
	v := ref.NewVals()
	v.Cmd = b.LibCmd
	if len(b.LibAltCmd) > 0 {
		if k := rapid.IntRange(0, len(b.LibAltCmd)).Draw(t, "cmdflavour"); k > 0 {
			v.Cmd = b.LibAltCmd[k-1]
		}
	}
	if s.Hdr == ref.HdrSMPP {
		v.Status = uint32(UintW(32).Draw(t, "status"))
	}
	v.Seq[0] = uint32(UintW(32).Draw(t, "seq0"))
	if s.Hdr == ref.HdrSGIP {
		v.Seq[1] = uint32(UintW(32).Draw(t, "seq1"))
		v.Seq[2] = uint32(UintW(32).Draw(t, "seq2"))
	}
	for _, f := range s.Fields {
		switch f.Kind {
		case ref.U8:
			v.F[f.Name] = U8For(f.Name).Draw(t, f.Name)
		case ref.U16:
			v.F[f.Name] = UintW(16).Draw(t, f.Name)
		case ref.U32:
			v.F[f.Name] = UintW(32).Draw(t, f.Name)
		case ref.U64:
			v.F[f.Name] = UintW(64).Draw(t, f.Name)
		case ref.FixStr:
			v.F[f.Name] = Text(f.W).Draw(t, f.Name)
		case ref.CStr:
			v.F[f.Name] = Text(f.W-1).Draw(t, f.Name)
		case ref.Bin, ref.HexID:
			v.F[f.Name] = Binary(f.W).Draw(t, f.Name)
		case ref.Count8:
			n := drawCount(t, f.Name)
			v.F[f.Name] = uint64(n)
			lf := fieldByName(s, f.Ref)
			if n == 0 && rapid.Bool().Draw(t, f.Ref+"nil") {
				v.F[f.Ref] = [][]byte(nil)
				break
			}
			l := make([][]byte, n)
			if n <= 16 {
				for i := range l {
					l[i] = Text(lf.W).Draw(t, fmt.Sprintf("%s%d", f.Ref, i))
				}
			} else {
				seed := rapid.Uint64().Draw(t, f.Ref+"seed")
				sm := vk.SplitMix(seed)
				for i := range l {
					ln := sm.Intn(lf.W + 1)
					if sm.Intn(4) == 0 {
						ln = lf.W
					}
					l[i] = fillBytes(sm.Next(), ln, 1)
				}
			}
			v.F[f.Ref] = l
		case ref.Len8:
			n := drawLen8(t, f.Name)
			v.F[f.Name] = uint64(n)
			v.F[f.Ref] = BodyBytes(t, n, f.Ref)
		case ref.Len32:
			n := drawLen8(t, f.Name)
			if o.BigBodies && rapid.IntRange(0, 9).Draw(t, f.Name+"big") == 0 {
				n = rapid.SampledFrom([]int{256, 257, 1000, 2048, 4095, 4096, 4097, 32767, 32768, 32769, 65535, 65536, 65537, 1<<20 - 1, 1 << 20, 1<<20 + 1, 3 << 20}).Draw(t, f.Name+"bigv")
			}
			v.F[f.Name] = uint64(n)
			v.F[f.Ref] = BodyBytes(t, n, f.Ref)
		case ref.List, ref.Body:
			// drawn with their count/length field
		case ref.Seq3:
			v.F[f.Name] = [3]uint32{uint32(UintW(32).Draw(t, f.Name+"0")), uint32(UintW(32).Draw(t, f.Name+"1")), uint32(UintW(32).Draw(t, f.Name+"2"))}
		case ref.TLVTail, ref.OptTail:
			if o.NoTails {
				v.F[f.Name] = []ref.Triplet(nil)
			} else {
				v.F[f.Name] = DrawTriplets(t, o, f.Name)
			}
		}
	}
	if rapid.IntRange(0, 5).Draw(t, "coherent") == 0 {
		coherentSegment(t, s, v, o)
	}
	if rapid.IntRange(0, 5).Draw(t, "coherentreport") == 0 {
		coherentReport(t, s, v)
	}
	if rapid.IntRange(0, 7).Draw(t, "coherentpayload") == 0 && !o.NoTails && (o.MaxTriplets == 0 || o.MaxTriplets >= 1) {
		coherentPayload(t, s, v, o)
	}
	return v
}

// coherentReport makes a deliver what a delivery report looks like on the wire: the report flag is set and
// the body is the protocol's report structure - CMPP: Msg_Id 8, Stat 7, Submit_time 10, Done_time 10,
// Dest_terminal_Id 21 (3.0: 32), SMSC_sequence 4; SMGP / SMPP: the receipt text - its inner fixed-width
// slots padded with NULs, space or followed by junk after the NUL as lenient peers leave them.
func coherentReport(t *rapid.T, s *ref.PDUSpec, v *ref.Vals) {
	var flag string
	for _, f := range s.Fields {
		switch f.Name {
		case "RegisteredDeliver", "IsReport":
			flag = f.Name
		}
	}
	if flag == "" && s.ID() != "smpp34.DeliverSm" {
		return
	}
	slot := func(text string, w int, label string) []byte {
		b := make([]byte, w)
		n := copy(b, text)
		switch rapid.IntRange(0, 3).Draw(t, label+"pad") {
		case 1:
			for i := n; i < w; i++ {
				b[i] = ' '
			}
		case 2:
			// junk after the terminating NUL
			for i := n + 1; i < w; i++ {
				b[i] = "xyz019"[i%6]
			}
		}
		return b
	}
	var body []byte
	switch s.Proto {
	case "cmpp20", "cmpp30":
		w := 21
		if s.Proto == "cmpp30" {
			w = 32
		}
		body = append(body, Binary(8).Draw(t, "rptid")...)
		body = append(body, slot(rapid.SampledFrom([]string{"DELIVRD", "EXPIRED", "UNDELIV", "REJECTD", "MA:0001", "", "OK"}).Draw(t, "rptstat"), 7, "stat")...)
		body = append(body, slot("2401011200", 10, "sub")...)
		body = append(body, slot(rapid.SampledFrom([]string{"2401011201", "240101120", ""}).Draw(t, "rptdone"), 10, "done")...)
		body = append(body, slot(rapid.SampledFrom([]string{"13800138000", "8613800138000", "+8613800138000", ""}).Draw(t, "rptdest"), w, "dest")...)
		body = append(body, Binary(4).Draw(t, "rptseq")...)
	default:
		body = []byte("id:0123456789 sub:001 dlvrd:001 submit date:2401011200 done date:2401011201 stat:DELIVRD err:000 text:hello")
		if s.Proto == "smgp30" {
			body = append(append([]byte("id:"), Binary(10).Draw(t, "rptid10")...), []byte(" sub:001 dlvrd:001 submit date:2401011200 done date:2401011201 stat:DELIVRD err:000 text:hello")...)
		}
	}
	for _, f := range s.Fields {
		if f.Kind == ref.Body {
			v.F[f.Name] = body
			v.F[ref.CountFieldFor(s, f.Name)] = uint64(len(body))
		}
	}
	if flag != "" {
		v.F[flag] = uint64(1)
	} else {
		v.F["ESMClass"] = uint64(rapid.SampledFrom([]int{0x04, 0x44, 0x08, 0x20}).Draw(t, "rptesm"))
	}
}

// coherentPayload: SMPP 3.4 section 5.3.2.32 - a message carried in the message_payload parameter has
// sm_length 0; long receipts travel that way.
func coherentPayload(t *rapid.T, s *ref.PDUSpec, v *ref.Vals, o Opts) {
	if s.ID() != "smpp34.DeliverSm" && s.ID() != "smpp34.SubmitSm" {
		return
	}
	v.F["ShortMessage"] = []byte{}
	v.F["SmLength"] = uint64(0)
	n := rapid.OneOf(rapid.IntRange(1, 40), rapid.IntRange(1, 300)).Draw(t, "payloadlen")
	ts := without3(v.T("TLVs"), 0x0424)
	if o.MaxTriplets > 0 && len(ts) >= o.MaxTriplets {
		ts = ts[:o.MaxTriplets-1] // the caller's bound on the number of parameters holds (C13: output must not depend on map order)
	}
	v.F["TLVs"] = append(ts, ref.Triplet{Tag: 0x0424, Val: BodyBytes(t, n, "payload")})
	v.F["ESMClass"] = U8For("ESMClass").Draw(t, "payloadesm")
}

func without3(ts []ref.Triplet, tag uint16) []ref.Triplet {
	var out []ref.Triplet
	for _, x := range ts {
		if x.Tag != tag {
			out = append(out, x)
		}
	}
	return out
}

// coherentSegment turns a submit/deliver value into what real traffic looks like for one part of a
// concatenated message: the body starts with a concatenation header and the user-data-header flag and
// the part counters take one of the combinations peers actually send (set and consistent, left at 0/0
// or 1/1 by a sender that does not fill them, flag forgotten). Independent draws would practically
// never produce these combinations.
func coherentSegment(t *rapid.T, s *ref.PDUSpec, v *ref.Vals, o Opts) {
	var bodyName, lenName string
	for _, f := range s.Fields {
		if f.Kind == ref.Body {
			bodyName = f.Name
			lenName = ref.CountFieldFor(s, f.Name)
		}
	}
	if bodyName == "" {
		return
	}
	total := uint64(rapid.IntRange(2, 6).Draw(t, "segtotal"))
	seq := uint64(rapid.IntRange(1, int(total)).Draw(t, "segseq"))
	body := append([]byte{}, v.B(bodyName)...)
	var hdr []byte
	if rapid.IntRange(0, 3).Draw(t, "hdr16") == 0 {
		hdr = []byte{6, 8, 4, 0x12, 0x34, byte(total), byte(seq)}
	} else {
		hdr = []byte{5, 0, 3, 0x2a, byte(total), byte(seq)}
	}
	if len(body) < len(hdr)+1 {
		body = append(append([]byte{}, hdr...), 'x')
	} else {
		copy(body, hdr)
	}
	if len(body) > 255 {
		body = body[:255]
	}
	v.F[bodyName] = body
	v.F[lenName] = uint64(len(body))
	flag := uint64(rapid.SampledFrom([]int{1, 1, 1, 0}).Draw(t, "udhi"))
	counters := [][2]uint64{{total, seq}, {0, 0}, {1, 1}, {0, 1}, {1, 0}, {total, 0}}[rapid.IntRange(0, 5).Draw(t, "counters")]
	for _, f := range s.Fields {
		switch f.Name {
		case "TpUDHI", "TpUdhi":
			v.F[f.Name] = flag
		case "ESMClass":
			v.F[f.Name] = flag << 6
		case "PkTotal":
			v.F[f.Name] = counters[0]
		case "PkNumber":
			v.F[f.Name] = counters[1]
		}
		if f.Kind == ref.OptTail && !o.NoTails && (o.MaxTriplets == 0 || o.MaxTriplets >= 3) && rapid.Bool().Draw(t, "segopts") {
			// SMGP carries the flag and the counters as optional parameters TP_udhi (2), PkTotal (9), PkNumber (10)
			v.F[f.Name] = []ref.Triplet{{Tag: 2, Val: []byte{byte(flag)}}, {Tag: 9, Val: []byte{byte(counters[0])}}, {Tag: 10, Val: []byte{byte(counters[1])}}}
		}
	}
}

func fieldByName(s *ref.PDUSpec, n string) ref.Field {
	for _, f := range s.Fields {
		if f.Name == n {
			return f
		}
	}
	panic("no field " + n)
}

// NonTrivial reports whether at least one non-header field is non-zero / non-empty.
func NonTrivial(s *ref.PDUSpec, v *ref.Vals) bool {
	for _, f := range s.Fields {
		switch x := v.F[f.Name].(type) {
		case uint64:
			if x != 0 {
				return true
			}
		case []byte:
			if len(x) > 0 {
				return true
			}
		case [][]byte:
			if len(x) > 0 {
				return true
			}
		case [3]uint32:
			if x != [3]uint32{} {
				return true
			}
		case []ref.Triplet:
			if len(x) > 0 {
				return true
			}
		}
	}
	return false
}

// DrawBinding picks a PDU type: shard-independent uniform choice.
func DrawBinding(t *rapid.T, withBody bool) *Binding {
	n := ref.NumPDUTypes
	if withBody {
		n++
	}
	return Bindings[rapid.IntRange(0, n-1).Draw(t, "type")]
}
