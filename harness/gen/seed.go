package gen

import (
	"verifharness/ref"
	"verifharness/vk"
)

// SeedVals builds a well-formed assignment deterministically from a seed with
// the requested destination count and body length.
func SeedVals(b *Binding, seed uint64, count, blen int) *ref.Vals {
	sm := vk.SplitMix(seed)
	s := b.Spec
	v := ref.NewVals()
	v.Cmd = b.LibCmd
	v.Status = uint32(sm.Next())
	v.Seq = [3]uint32{uint32(sm.Next()), uint32(sm.Next()), uint32(sm.Next())}
	text := func(max int) []byte {
		n := sm.Intn(max + 1)
		out := make([]byte, n)
		for i := range out {
			out[i] = byte(1 + sm.Intn(255))
		}
		return out
	}
	raw := func(n int) []byte {
		out := make([]byte, n)
		for i := range out {
			out[i] = byte(sm.Next())
		}
		return out
	}
	for _, f := range s.Fields {
		switch f.Kind {
		case ref.U8:
			v.F[f.Name] = sm.Next() & 0xff
		case ref.U16:
			v.F[f.Name] = sm.Next() & 0xffff
		case ref.U32:
			v.F[f.Name] = sm.Next() & 0xffffffff
		case ref.U64:
			v.F[f.Name] = sm.Next()
		case ref.FixStr:
			v.F[f.Name] = text(f.W)
		case ref.CStr:
			v.F[f.Name] = text(f.W - 1)
		case ref.Bin, ref.HexID:
			v.F[f.Name] = raw(f.W)
		case ref.Count8:
			v.F[f.Name] = uint64(count)
			var w int
			for _, g := range s.Fields {
				if g.Name == f.Ref {
					w = g.W
				}
			}
			l := make([][]byte, count)
			for i := range l {
				l[i] = text(w)
			}
			v.F[f.Ref] = l
		case ref.Len8, ref.Len32:
			v.F[f.Name] = uint64(blen)
			v.F[f.Ref] = raw(blen)
		case ref.Seq3:
			v.F[f.Name] = [3]uint32{uint32(sm.Next()), uint32(sm.Next()), uint32(sm.Next())}
		case ref.TLVTail, ref.OptTail:
			n := sm.Intn(3)
			var ts []ref.Triplet
			for i := 0; i < n; i++ {
				ts = append(ts, ref.Triplet{Tag: uint16(0x100*(i+1)) + uint16(sm.Intn(200)), Val: raw(sm.Intn(12))})
			}
			v.F[f.Name] = ts
		}
	}
	return v
}
