// C11 — decode -> encode -> decode is stable; canonical images re-encode bit-for-bit.
package c11

import (
	"bytes"
	"encoding/binary"
	"encoding/json"
	"fmt"
	"os"
	"testing"

	"pgregory.net/rapid"

	"verifharness/gen"
	"verifharness/ref"
	"verifharness/vk"
)

var rec = vk.NewRecorder("C11")

func TestMain(m *testing.M) {
	code := m.Run()
	rec.Flush("all")
	os.Exit(code)
}

type Case struct {
	Spec      string `json:"spec"`
	Image     string `json:"image_hex"`
	Canonical bool   `json:"canonical"`
	Mutation  string `json:"mutation,omitempty"`
}

// Relay is the oracle. accepted reports whether the decoder accepted the input.
func Relay(c Case) (v *vk.Violation, accepted bool) {
	b := gen.ByID(c.Spec)
	if b == nil {
		return vk.Violf("", c, "unknown spec %s", c.Spec), false
	}
	img := vk.UnHex(c.Image)
	id := b.Spec.ID()
	p1 := b.New()
	var err error
	if pn := vk.Guarded("relay", id+"/hang", func() any { return c }, func() { err = p1.IDecode(append([]byte{}, img...)) }); pn != "" {
		return nil, false // C03's business (decoding untrusted bytes)
	}
	if err != nil {
		return nil, false
	}
	// snapshot what was decoded BEFORE re-encoding: encoders may normalise their receiver in place,
	// and only the documented normalisation (CMPP 2.0 submit 0/0 -> 1/1) is allowed
	want := gen.Normalise(b, b.Extract(p1))
	var b2 []byte
	if pn := vk.Guarded("relay", id+"/hang", func() any { return c }, func() { b2, err = p1.IEncode() }); pn != "" {
		return vk.Violf(id+"/reencode/panic", c, "%s: re-encoding a decoded PDU panicked (mutation %q)\n%s", id, c.Mutation, pn), true
	}
	if err != nil {
		return vk.Violf(id+"/reencode/error", c, "%s: the decoder accepted the image but the result cannot be encoded again: %v (mutation %q)", id, err, c.Mutation), true
	}
	p2 := b.New()
	if pn := vk.Guarded("relay", id+"/hang", func() any { return c }, func() { err = p2.IDecode(append([]byte{}, b2...)) }); pn != "" {
		return vk.Violf(id+"/redecode/panic", c, "%s: decoding the re-encoded bytes panicked\n%s", id, pn), true
	}
	if err != nil {
		return vk.Violf(id+"/redecode/error", c, "%s: the re-encoded bytes are rejected by the decoder: %v (mutation %q)", id, err, c.Mutation), true
	}
	if d := ref.Diff(b.Spec, want, b.Extract(p2)); d != "" {
		return vk.Violf(id+"/relay/"+d[:min(len(d), 0)]+fieldOf(d), c, "%s: decode(encode(decode(b))) differs from decode(b): %s (mutation %q)", id, d, c.Mutation), true
	}
	if c.Canonical {
		mand := ref.MandatoryLen(b.Spec, want)
		if b.Spec.ID() == "smgp30.ActiveTestResp" {
			mand = len(img)
		}
		if d := gen.SameImage(b.Spec, mand, img, b2); d != "" {
			return vk.Violf(id+"/canonical-not-reproduced", c, "%s: a canonical image is not reproduced bit-for-bit by decode+encode: %s", id, d), true
		}
	}
	return nil, true
}

func fieldOf(d string) string {
	var name string
	if _, err := fmt.Sscanf(d, "field %s", &name); err == nil {
		for i := 0; i < len(name); i++ {
			if name[i] == ':' || name[i] == '[' {
				return name[:i]
			}
		}
		return name
	}
	return "header"
}

func min(a, b int) int {
	if a < b {
		return a
	}
	return b
}

var reg = vk.Registry{"relay": func(raw json.RawMessage) *vk.Violation {
	var c Case
	_ = json.Unmarshal(raw, &c)
	v, _ := Relay(c)
	return v
}}

func TestReplay(t *testing.T) { vk.RunReplay(t, reg) }

var mutations = []string{"nul-junk", "dup-tags", "big-opt", "trailing", "len-shift", "count-shift", "length-word", "substitute", "truncate-tail", "long-cstr"}

// mutate derives a (possibly) decodable non-canonical image from a reference image.
func mutate(t *rapid.T, b *gen.Binding, v *ref.Vals, kind string) []byte {
	s := b.Spec
	img := ref.Encode(s, v)
	_, info, err := ref.Decode(s, img)
	if err != nil {
		return img
	}
	fix := func(out []byte) []byte {
		if s.Hdr != ref.HdrNone && len(out) >= 4 {
			binary.BigEndian.PutUint32(out, uint32(len(out)))
		}
		return out
	}
	switch kind {
	case "nul-junk":
		out := append([]byte{}, img...)
		for _, f := range s.Fields {
			if f.Kind == ref.FixStr && len(v.B(f.Name)) <= f.W-2 {
				o := info.Offsets[f.Name] + len(v.B(f.Name)) + 1
				for i := o; i < info.Offsets[f.Name]+f.W; i++ {
					out[i] = rapid.ByteRange(1, 255).Draw(t, "junk")
				}
			}
			if f.Kind == ref.List {
				o := info.Offsets[f.Name]
				for _, e := range v.L(f.Name) {
					if len(e) <= f.W-2 {
						for i := o + len(e) + 1; i < o+f.W; i++ {
							out[i] = 0x41
						}
					}
					o += f.W
				}
			}
		}
		return out
	case "dup-tags", "big-opt":
		if !s.HasTail() {
			return img
		}
		var tailName string
		for _, f := range s.Fields {
			if f.Kind == ref.TLVTail || f.Kind == ref.OptTail {
				tailName = f.Name
			}
		}
		ts := append([]ref.Triplet{}, v.T(tailName)...)
		if kind == "dup-tags" {
			n := rapid.IntRange(1, 4).Draw(t, "ndup")
			for i := 0; i < n; i++ {
				tag := uint16(rapid.IntRange(0, 5).Draw(t, "duptag"))
				if len(ts) > 0 && rapid.Bool().Draw(t, "existing") {
					tag = ts[rapid.IntRange(0, len(ts)-1).Draw(t, "which")].Tag
				}
				ts = append(ts, ref.Triplet{Tag: tag, Val: rapid.SliceOfN(rapid.Byte(), 0, 8).Draw(t, "dupval")})
			}
			ts = rapid.Permutation(ts).Draw(t, "order")
		} else {
			l := rapid.SampledFrom([]int{65531, 65532, 65533, 65534, 65535}).Draw(t, "biglen")
			ts = append(ts, ref.Triplet{Tag: 0x7777, Val: gen.BodyBytes(t, l, "bigval")})
		}
		return fix(append(append([]byte{}, img[:info.MandatoryEnd]...), ref.EncodeTriplets(ts)...))
	case "long-cstr":
		// a C-octet string longer than the specification's maximum for the field: decoders read up to the NUL
		// and accept it (peers do send over-long message ids and addresses)
		var cs []ref.Field
		for _, f := range s.Fields {
			if f.Kind == ref.CStr {
				cs = append(cs, f)
			}
		}
		if len(cs) == 0 {
			return img
		}
		f := cs[rapid.IntRange(0, len(cs)-1).Draw(t, "cstrfield")]
		n := rapid.SampledFrom([]int{f.W, f.W + 1, 64, 65, 127, 128, 129, 255, 256, 300}).Draw(t, "cstrlen")
		long := make([]byte, n)
		for i := range long {
			long[i] = "0123456789abcdefXYZ+"[(i*7+n)%20]
		}
		v2 := *v
		v2.F = map[string]any{}
		for k, x := range v.F {
			v2.F[k] = x
		}
		v2.F[f.Name] = long
		return ref.Encode(s, &v2)
	case "trailing":
		return fix(append(append([]byte{}, img...), rapid.SliceOfN(rapid.Byte(), 1, 16).Draw(t, "garbage")...))
	case "len-shift", "count-shift":
		out := append([]byte{}, img...)
		for _, f := range s.Fields {
			if (kind == "len-shift" && f.Kind == ref.Len8) || (kind == "count-shift" && f.Kind == ref.Count8) {
				out[info.Offsets[f.Name]] = byte(int(out[info.Offsets[f.Name]]) + rapid.IntRange(-3, 3).Draw(t, "delta"))
			}
			if kind == "len-shift" && f.Kind == ref.Len32 {
				o := info.Offsets[f.Name]
				binary.BigEndian.PutUint32(out[o:], uint32(int(binary.BigEndian.Uint32(out[o:]))+rapid.IntRange(-3, 3).Draw(t, "delta32")))
			}
		}
		// pad so that a larger declared size still finds octets
		return append(out, make([]byte, rapid.IntRange(0, 70).Draw(t, "pad"))...)
	case "length-word":
		out := append([]byte{}, img...)
		if len(out) >= 4 {
			binary.BigEndian.PutUint32(out, rapid.Uint32().Draw(t, "lenword"))
		}
		return out
	case "substitute":
		out := append([]byte{}, img...)
		n := rapid.IntRange(1, 3).Draw(t, "nsub")
		for i := 0; i < n && len(out) > s.HeaderLen(); i++ {
			out[rapid.IntRange(s.HeaderLen(), len(out)-1).Draw(t, "pos")] = rapid.Byte().Draw(t, "val")
		}
		return out
	case "truncate-tail":
		if !s.HasTail() || len(img) == info.MandatoryEnd {
			return img
		}
		return img[:rapid.IntRange(info.MandatoryEnd, len(img)).Draw(t, "cut")]
	}
	return img
}

func TestRelayPerType(t *testing.T) {
	rec.RunProbes(t, reg)
	rec.RunRegress(t, reg)
	for _, b := range gen.Bindings {
		b := b
		t.Run(b.Spec.ID(), rapid.MakeCheck(func(t *rapid.T) {
			v := gen.DrawVals(t, b, gen.Opts{BigBodies: false, BigTails: rapid.IntRange(0, 9).Draw(t, "bigtails") == 0})
			// canonical image = what the encoder produces
			canon, err := b.Fill(v).IEncode()
			if err == nil {
				c := Case{Spec: b.Spec.ID(), Image: vk.Hex(canon), Canonical: true}
				viol, acc := Relay(c)
				rec.Eval()
				if acc {
					rec.Class("canonical_accepted")
				}
				rec.Report(t, "relay", viol)
			}
			kind := rapid.SampledFrom(mutations).Draw(t, "mutation")
			img := mutate(t, b, v, kind)
			c := Case{Spec: b.Spec.ID(), Image: vk.Hex(img), Mutation: kind}
			viol, acc := Relay(c)
			rec.Eval()
			if acc && !bytes.Equal(img, canon) {
				rec.NonTrivial(b.Spec.ID(), img)
				rec.Class("accepted_noncanonical:" + kind)
			} else if !acc {
				rec.Class("rejected:" + kind)
			}
			if len(img) <= 120 {
				rec.Sample(b.Spec.Proto+"-"+kind, c)
			}
			rec.Report(t, "relay", viol)
		}))
	}
}

// FuzzRelay: coverage-guided search for decoder-accepted inputs far from any
// canonical image (thorough tier only).
func FuzzRelay(f *testing.F) {
	for i, b := range gen.Bindings {
		v := gen.SeedVals(b, uint64(i)*17+3, 2, 5)
		if b.Spec.Hdr != ref.HdrNone {
			v.Cmd = b.Spec.Cmd
		}
		f.Add(uint16(i), ref.Encode(b.Spec, v))
		if img, err := b.Fill(v).IEncode(); err == nil {
			f.Add(uint16(i), img)
		}
	}
	f.Fuzz(func(t *testing.T, sel uint16, data []byte) {
		if len(data) > 1<<16 {
			return
		}
		b := gen.Bindings[int(sel)%len(gen.Bindings)]
		c := Case{Spec: b.Spec.ID(), Image: vk.Hex(data), Mutation: "native fuzz"}
		if v, _ := Relay(c); v != nil {
			if vk.IsKnown("C11", v.Key) {
				return
			}
			path := rec.WriteReplay("relay", v)
			t.Fatalf("VIOLATION-CASE property=C11 kind=relay key=%q replay=%s\n%s", v.Key, path, v.Msg)
		}
	})
}
