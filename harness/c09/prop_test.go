// C09 — batch encoder returns the cheapest usable coding, deterministically.
package c09

import (
	"bytes"
	"context"
	"encoding/json"
	"fmt"
	"io"
	"os"
	"runtime"
	"sort"
	"testing"

	sms "github.com/hujm2023/go-sms-protocol"
	dc "github.com/hujm2023/go-sms-protocol/datacoding"
	"github.com/hujm2023/go-sms-protocol/logger"
	"pgregory.net/rapid"

	"verifharness/gen"
	"verifharness/ref"
	"verifharness/splitk"
	"verifharness/vk"
)

var rec = vk.NewRecorder("C09")

func TestMain(m *testing.M) {
	vk.Disturb = gen.Disturb
	logger.SetOutput(io.Discard)
	code := m.Run()
	rec.Flush("all")
	os.Exit(code)
}

type Case struct {
	Proto      string  `json:"proto"` // "cmpp" | "smpp"
	Candidates []int   `json:"candidates"`
	HasOrigin  bool    `json:"has_origin"`
	Origin     int     `json:"origin"`
	Ref        byte    `json:"ref"`
	Text       string  `json:"text_hex"`
	Shuffles   [][]int `json:"shuffles"` // permutations of candidate indexes for the repetitions
}

// documented priority: smaller = preferred
var prio = map[string]map[int]int{
	"cmpp": {9: 1, 8: 2, 15: 3, 0: 4},
	"smpp": {8: 1, 0: 2, 3: 3, 1: 4, 99: 5},
}

func pdc(proto string, n int) dc.ProtocolDataCoding {
	if proto == "cmpp" {
		return dc.CMPPDataCoding(n)
	}
	return dc.SMPPDataCoding(n)
}

type outcome struct {
	parts  [][]byte
	coding dc.ProtocolDataCoding
	err    error
	panic  string
}

func build(c Case, order []int) (o outcome) {
	// the candidate list is a prefix of a longer configured list (spare capacity behind it): what lies
	// behind the candidates belongs to the caller
	list := make([]dc.ProtocolDataCoding, 0, len(order)+2)
	for _, i := range order {
		list = append(list, pdc(c.Proto, c.Candidates[i]))
	}
	sentinel := pdc(c.Proto, 0x7777)
	full := append(list, sentinel, sentinel)
	defer func() {
		if full[len(list)] != sentinel || full[len(list)+1] != sentinel {
			o.panic = "the builder wrote into the caller's candidate slice behind the candidates it was given (spare capacity of the argument)"
		}
	}()
	b := sms.NewBatchDataCodingEncoder().Protocol(map[string]sms.Protocol{"cmpp": sms.CMPP, "smpp": sms.SMPP}[c.Proto]).
		Content(string(vk.UnHex(c.Text)), c.Ref).DataCodings(list)
	if c.HasOrigin {
		b = b.OriginDataCoding(pdc(c.Proto, c.Origin))
	}
	o.panic = vk.Guarded("batch", c.Proto+"/hang", func() any { return c }, func() { o.parts, o.coding, o.err = b.Build(context.Background()) })
	return o
}

// expectation: reference selection
func expect(c Case) (coding int, parts int, wantErr bool, usable []int) {
	text := string(vk.UnHex(c.Text))
	set := map[int]bool{}
	for _, n := range c.Candidates {
		set[n] = true
	}
	if c.HasOrigin {
		if _, ok := splitk.KindOf(c.Proto, c.Origin); ok {
			set[c.Origin] = true
		}
	}
	count := func(n int) (int, bool) {
		k, ok := splitk.KindOf(c.Proto, n)
		if !ok {
			return 0, false
		}
		_, starts, err := ref.Units(k, text)
		if err != nil {
			return 0, false
		}
		single, per := k.Limits()
		if starts[len(starts)-1] <= single {
			return 1, true
		}
		g := ref.GreedyCount(starts, per)
		if g > 255 {
			return 0, false
		}
		return g, true
	}
	best, bestParts := -1, 0
	for n := range set {
		p, ok := count(n)
		if !ok {
			continue
		}
		usable = append(usable, n)
		if best < 0 || p < bestParts || (p == bestParts && prio[c.Proto][n] < prio[c.Proto][best]) {
			best, bestParts = n, p
		}
	}
	sort.Ints(usable)
	if best >= 0 {
		return best, bestParts, false, usable
	}
	if p, ok := count(8); ok && !set[8] {
		return 8, p, false, usable
	}
	if p, ok := count(8); ok && set[8] {
		return 8, p, false, usable // cannot happen (8 would be usable); kept for clarity
	}
	return 0, 0, true, usable
}

func check(c Case) *vk.Violation {
	text := string(vk.UnHex(c.Text))
	ident := make([]int, len(c.Candidates))
	for i := range ident {
		ident[i] = i
	}
	first := build(c, ident)
	if first.panic != "" {
		return vk.Violf(c.Proto+"/panic", c, "Build panicked\n%s", first.panic)
	}
	if text == "" || len(c.Candidates) == 0 {
		if first.err == nil {
			return vk.Violf(c.Proto+"/empty-request-accepted", c, "empty request (content %q, %d candidates) did not return an error", text, len(c.Candidates))
		}
		return nil
	}
	wantCoding, wantParts, wantErr, usable := expect(c)
	if wantErr {
		if first.err == nil {
			return vk.Violf(c.Proto+"/error-expected", c, "no coding can carry the content within 255 parts, but Build returned coding %v with %d parts", first.coding, len(first.parts))
		}
	} else {
		if first.err != nil {
			return vk.Violf(c.Proto+"/unexpected-error", c, "Build failed (%v) although coding %d can carry the content in %d parts (usable candidates %v)", first.err, wantCoding, wantParts, usable)
		}
		if first.coding != pdc(c.Proto, wantCoding) {
			return vk.Violf(c.Proto+"/not-the-cheapest", c, "Build chose %v (%d parts); the cheapest usable candidate by (parts, priority) is %d with %d parts (usable %v, candidates %v, origin %v/%d)", first.coding, len(first.parts), wantCoding, wantParts, usable, c.Candidates, c.HasOrigin, c.Origin)
		}
		if len(first.parts) != wantParts {
			return vk.Violf(c.Proto+"/part-count", c, "Build returned %d parts for coding %d, reference count is %d", len(first.parts), wantCoding, wantParts)
		}
		sc := splitk.Case{Proto: c.Proto, Coding: wantCoding, Ref: c.Ref, Text: c.Text}
		sr := splitk.Result{Parts: first.parts, Actual: first.coding.ToInt()}
		if c.Proto == "smpp" && wantCoding == 99 {
			sr.Actual = 99 // ToInt() maps both GSM-7 forms to 0
		}
		if c.Proto == "cmpp" {
			sr.Actual = wantCoding
		}
		if _, v := splitk.Analyse(sc, sr); v != nil {
			v.Key = c.Proto + "/returned-parts-do-not-decode-to-content"
			v.Case = c
			return v
		}
		if v := splitk.Shape(sc, sr); v != nil {
			v.Key = c.Proto + "/returned-parts-shape"
			v.Case = c
			return v
		}
	}
	// the result is a function of the request alone
	for si, sh := range c.Shuffles {
		for _, procs := range []int{1, 2, 4, 16} {
			old := runtime.GOMAXPROCS(procs)
			o := build(c, sh)
			runtime.GOMAXPROCS(old)
			if o.panic != "" {
				return vk.Violf(c.Proto+"/panic", c, "Build panicked under shuffle %d GOMAXPROCS %d\n%s", si, procs, o.panic)
			}
			if (o.err == nil) != (first.err == nil) || o.coding != first.coding || !sameParts(o.parts, first.parts) {
				return vk.Violf(c.Proto+"/not-deterministic", c, "shuffle %d, GOMAXPROCS %d: result (coding %v, %d parts, err %v) differs from the first run (coding %v, %d parts, err %v)", si, procs, o.coding, len(o.parts), o.err, first.coding, len(first.parts), first.err)
			}
		}
	}
	return nil
}

func sameParts(a, b [][]byte) bool {
	if len(a) != len(b) {
		return false
	}
	for i := range a {
		if !bytes.Equal(a[i], b[i]) {
			return false
		}
	}
	return true
}

var reg = vk.Registry{"batch": func(raw json.RawMessage) *vk.Violation {
	var c Case
	_ = json.Unmarshal(raw, &c)
	return check(c)
}}

func init() { reg["sequence"] = vk.SequenceReplayer(reg) }

func TestReplay(t *testing.T) { vk.RunReplay(t, reg) }

// texts whose part counts differ between codings
func drawContent(t *rapid.T, proto string) string {
	switch rapid.IntRange(0, 11).Draw(t, "contentclass") {
	case 0:
		return ""
	case 10, 11:
		// messages as applications send them; runs of GSM-7 extension characters make the part counts of the
		// 7-bit and the 16-bit codings tie beyond 70 characters (the documented priority then decides)
		if rapid.Bool().Draw(t, "extrun") {
			pair := rapid.SampledFrom([]string{"[]", "{}", "^~", "|\\", "€"}).Draw(t, "extpair")
			n := rapid.SampledFrom([]int{36, 40, 45, 67, 77, 80, 81, 100}).Draw(t, "extn")
			s := ""
			for i := 0; i < n; i++ {
				s += pair
			}
			return s
		}
		return splitk.CorpusText(t)
	case 1, 2, 3:
		// pure GSM-7/ASCII text of a drawn size: 70 UCS-2 characters vs 160 septets vs 140 octets
		k := ref.KGSMUnpacked
		if proto == "cmpp" {
			k = ref.KASCII
		}
		return splitk.BuildText(t, k, false, proto, 0, 1500)
	case 4, 5:
		return splitk.BuildText(t, ref.KUCS2, false, proto, 8, 1500)
	case 6:
		if proto == "cmpp" {
			return splitk.BuildText(t, ref.KGB18030, false, proto, 15, 1500)
		}
		return splitk.BuildText(t, ref.KLatin1, false, proto, 3, 1500)
	case 7:
		return splitk.BuildText(t, ref.KGSMPacked, false, proto, 99, 1500)
	default:
		n := rapid.SampledFrom([]int{1, 60, 69, 70, 71, 134, 139, 140, 141, 152, 153, 154, 159, 160, 161, 268, 306, 307}).Draw(t, "n")
		ch := rapid.SampledFrom([]string{"a", "1", "é", "中", "[", "@"}).Draw(t, "ch")
		s := ""
		for i := 0; i < n; i++ {
			s += ch
		}
		return s
	}
}

// TestBatchHuge: contents for which some or all candidates need more than 255 parts
// (such a candidate is unusable; if none is usable the call must fail). Deterministic
// grid, two shuffles each.
func TestBatchHuge(t *testing.T) {
	env := rec.Env()
	rep := func(s string, n int) string {
		b := make([]byte, 0, n*len(s))
		for i := 0; i < n; i++ {
			b = append(b, s...)
		}
		return string(b)
	}
	type req struct {
		proto string
		cands []int
		text  string
	}
	var reqs []req
	for _, n := range []int{17000, 20000, 34170, 34171, 39015, 39016, 40000} {
		reqs = append(reqs,
			req{"smpp", []int{0, 8}, rep("a", n)}, req{"smpp", []int{8, 0}, rep("a", n)}, req{"smpp", []int{8}, rep("a", n)},
			req{"smpp", []int{99, 8, 1}, rep("a", n)}, req{"smpp", []int{0, 99}, rep("[", n/2)}, req{"smpp", []int{3, 1}, rep("a", n)},
			req{"cmpp", []int{0, 8}, rep("a", n)}, req{"cmpp", []int{15, 8}, rep("a", n)}, req{"cmpp", []int{8, 0}, rep("中", n/2)},
			req{"cmpp", []int{15, 9}, rep("中", n/2)}, req{"cmpp", []int{0}, rep("中", n/2)})
	}
	// a single candidate that overflows 255 parts although UCS-2 would fit: characters that take 4 octets in
	// GB18030 and 2 in UCS-2, escape-only GSM-7 texts
	for _, n := range []int{8416, 8500, 9000, 17000} {
		reqs = append(reqs, req{"cmpp", []int{15}, rep("\u00c1", n)}, req{"cmpp", []int{15, 15}, rep("\u0e01", n)}, req{"cmpp", []int{15, 4}, rep("\u00c1", n)},
			req{"smpp", []int{99}, rep("[", 2*n)}, req{"smpp", []int{0}, rep("\u20ac", 2*n)}, req{"smpp", []int{1}, rep("a", 4*n+300)})
	}
	// GSM 7-bit letters that take two or three octets in UTF-8: the text is longer in octets than in septets, so
	// a limit taken from the octet count refuses (or mis-ranks) contents that fit
	for _, n := range []int{1500, 1700, 1900, 1950} {
		acc := rep("ma\u00f1ana y caf\u00e9 \u00bfqu\u00e9? ", n)
		reqs = append(reqs, req{"smpp", []int{99, 3}, acc}, req{"smpp", []int{3, 99, 1}, acc}, req{"smpp", []int{99, 8}, acc}, req{"smpp", []int{99}, acc}, req{"smpp", []int{0, 8}, acc})
	}
	for i, r := range reqs {
		if !env.Mine(i) {
			continue
		}
		c := Case{Proto: r.proto, Candidates: r.cands, Ref: byte(i), Text: vk.Hex([]byte(r.text))}
		idx := make([]int, len(r.cands))
		for k := range idx {
			idx[k] = len(r.cands) - 1 - k
		}
		c.Shuffles = [][]int{idx}
		_, _, wantErr, usable := expect(c)
		rec.Eval()
		rec.NonTrivialConstructed(1)
		rec.Class("huge_content")
		if wantErr {
			rec.Class("huge_content_error_expected")
		}
		if len(usable) < len(r.cands) {
			rec.Class("huge_content_some_candidate_exceeds_255_parts")
		}
		rec.Report(t, "batch", check(c))
	}
}

func TestBatch(t *testing.T) {
	rec.RunProbes(t, reg)
	rec.RunRegress(t, reg)
	rapid.Check(t, func(t *rapid.T) {
		c := Case{Proto: rapid.SampledFrom([]string{"cmpp", "smpp"}).Draw(t, "proto"), Ref: rapid.Byte().Draw(t, "ref")}
		valid, invalid := splitk.CMPPValid, splitk.CMPPInvalid
		if c.Proto == "smpp" {
			valid, invalid = splitk.SMPPValid, splitk.SMPPInvalid
		}
		pool := append(append([]int{}, valid...), valid...)
		pool = append(pool, invalid...)
		n := rapid.OneOf(rapid.IntRange(1, 4), rapid.IntRange(0, 8)).Draw(t, "ncand")
		c.Candidates = rapid.SliceOfN(rapid.SampledFrom(pool), n, n).Draw(t, "candidates")
		c.HasOrigin = rapid.Bool().Draw(t, "hasorigin")
		if c.HasOrigin {
			c.Origin = rapid.SampledFrom(pool).Draw(t, "origin")
		}
		c.Text = vk.Hex([]byte(drawContent(t, c.Proto)))
		idx := make([]int, n)
		for i := range idx {
			idx[i] = i
		}
		for s := 0; s < 6 && n > 0; s++ {
			c.Shuffles = append(c.Shuffles, rapid.Permutation(idx).Draw(t, fmt.Sprintf("shuffle%d", s)))
		}
		_, _, wantErr, usable := expect(c)
		rec.Eval()
		if len(usable) >= 2 {
			rec.NonTrivial(c.Proto, fmt.Sprint(c.Candidates), c.HasOrigin, c.Origin, c.Text)
			rec.Class("usable>=2")
			// tie on part count?
			text := string(vk.UnHex(c.Text))
			cnt := map[int]int{}
			for _, u := range usable {
				k, _ := splitk.KindOf(c.Proto, u)
				_, st, _ := ref.Units(k, text)
				single, per := k.Limits()
				p := 1
				if st[len(st)-1] > single {
					p = ref.GreedyCount(st, per)
				}
				cnt[p]++
			}
			for _, v := range cnt {
				if v >= 2 {
					rec.Class("tie_on_part_count_priority_decides")
					break
				}
			}
		}
		if len(usable) == 0 && !wantErr && len(c.Candidates) > 0 && c.Text != "" {
			rec.Class("fallback_to_ucs2")
		}
		if wantErr {
			rec.Class("error_expected")
		}
		if c.HasOrigin {
			rec.Class("origin_given")
		}
		rec.Sample(c.Proto, map[string]any{"proto": c.Proto, "candidates": c.Candidates, "origin": c.Origin, "has_origin": c.HasOrigin, "text_bytes": len(c.Text) / 2, "usable": usable})
		rec.ReportSeq(t, "batch", c, func() *vk.Violation { return check(c) })
	})
}

// ReuseCase: one builder object serves two requests one after the other; between them only the setters
// whose argument changed are called (the way a long-lived sender reuses its builder).
type ReuseCase struct {
	First  Case   `json:"first"`
	Second Case   `json:"second"`
	Touch  []bool `json:"touch"` // which setters are called again for the second request: content, candidates, origin
}

func checkReuse(rc ReuseCase) *vk.Violation {
	pr := map[string]sms.Protocol{"cmpp": sms.CMPP, "smpp": sms.SMPP}[rc.First.Proto]
	mk := func(c Case) []dc.ProtocolDataCoding {
		var l []dc.ProtocolDataCoding
		for _, n := range c.Candidates {
			l = append(l, pdc(c.Proto, n))
		}
		return l
	}
	b := sms.NewBatchDataCodingEncoder().Protocol(pr).Content(string(vk.UnHex(rc.First.Text)), rc.First.Ref).DataCodings(mk(rc.First))
	if rc.First.HasOrigin {
		b = b.OriginDataCoding(pdc(rc.First.Proto, rc.First.Origin))
	}
	var v *vk.Violation
	pn := vk.Guarded("reuse", rc.First.Proto+"/reuse/hang", func() any { return rc }, func() {
		_, _, _ = b.Build(context.Background())
		// second request: same protocol; call only the setters that have something new
		eff := rc.Second
		if rc.Touch[0] {
			b.Content(string(vk.UnHex(rc.Second.Text)), rc.Second.Ref)
		} else {
			eff.Text, eff.Ref = rc.First.Text, rc.First.Ref
		}
		if rc.Touch[1] {
			b.DataCodings(mk(rc.Second))
		} else {
			eff.Candidates = rc.First.Candidates
		}
		if rc.Touch[2] && rc.Second.HasOrigin {
			b.OriginDataCoding(pdc(rc.Second.Proto, rc.Second.Origin))
		} else {
			eff.HasOrigin, eff.Origin = rc.First.HasOrigin, rc.First.Origin
		}
		parts, coding, err := b.Build(context.Background())
		// a fresh builder configured with the effective request is the reference
		eff.Shuffles = nil
		fresh := build(eff, identity(len(eff.Candidates)))
		if (err == nil) != (fresh.err == nil) || coding != fresh.coding || !sameParts(parts, fresh.parts) {
			v = vk.Violf(rc.First.Proto+"/reused-builder-differs-from-fresh-builder", rc, "a builder that served another request before returns (coding %v, %d parts, err %v); a fresh builder with the same effective request returns (coding %v, %d parts, err %v): the result depends on the builder's history", coding, len(parts), err, fresh.coding, len(fresh.parts), fresh.err)
		}
	})
	if pn != "" {
		return vk.Violf(rc.First.Proto+"/reuse/panic", rc, "panic\n%s", pn)
	}
	return v
}

func identity(n int) []int {
	out := make([]int, n)
	for i := range out {
		out[i] = i
	}
	return out
}

func init() {
	reg["reuse"] = func(raw json.RawMessage) *vk.Violation {
		var c ReuseCase
		_ = json.Unmarshal(raw, &c)
		return checkReuse(c)
	}
}

func drawRequest(t *rapid.T, proto, label string) Case {
	c := Case{Proto: proto, Ref: rapid.Byte().Draw(t, label+"ref")}
	valid, invalid := splitk.CMPPValid, splitk.CMPPInvalid[:7]
	if proto == "smpp" {
		valid, invalid = splitk.SMPPValid, splitk.SMPPInvalid[:7]
	}
	pool := append(append([]int{}, valid...), valid...)
	pool = append(pool, invalid...)
	n := rapid.IntRange(1, 4).Draw(t, label+"n")
	c.Candidates = rapid.SliceOfN(rapid.SampledFrom(pool), n, n).Draw(t, label+"cands")
	c.HasOrigin = rapid.Bool().Draw(t, label+"hasorigin")
	if c.HasOrigin {
		c.Origin = rapid.SampledFrom(pool).Draw(t, label+"origin")
	}
	txt := drawContent(t, proto)
	if txt == "" {
		txt = "hello"
	}
	c.Text = vk.Hex([]byte(txt))
	return c
}

func TestBuilderReuse(t *testing.T) {
	rapid.Check(t, func(t *rapid.T) {
		proto := rapid.SampledFrom([]string{"cmpp", "smpp"}).Draw(t, "proto")
		rc := ReuseCase{First: drawRequest(t, proto, "a"), Second: drawRequest(t, proto, "b"),
			Touch: []bool{rapid.Bool().Draw(t, "t0"), rapid.Bool().Draw(t, "t1"), rapid.Bool().Draw(t, "t2")}}
		rec.Eval()
		rec.NonTrivial("reuse", rc.First.Text, rc.Second.Text, fmt.Sprint(rc.First.Candidates, rc.Second.Candidates, rc.First.Origin, rc.Second.Origin, rc.Touch))
		rec.Class("builder_reused_for_a_second_request")
		rec.Report(t, "reuse", checkReuse(rc))
	})
}
