// C01 — PDU encode -> decode round trip for every PDU type of all five protocols.
package c01

import (
	"bytes"
	"encoding/json"
	"fmt"
	"os"
	"testing"

	"pgregory.net/rapid"

	"verifharness/gen"
	"verifharness/ref"
	"verifharness/vk"
)

var rec = vk.NewRecorder("C01")

func TestMain(m *testing.M) {
	vk.Disturb = gen.Disturb
	code := m.Run()
	rec.Flush("all")
	os.Exit(code)
}

var reg = vk.Registry{
	"roundtrip": func(raw json.RawMessage) *vk.Violation {
		var c gen.PCase
		_ = json.Unmarshal(raw, &c)
		s, v := ref.FromJ(c.Vals)
		if s == nil {
			return vk.Violf("", c, "unknown spec %s", c.Vals.Spec)
		}
		return gen.RoundTrip(gen.ByID(s.ID()), v)
	},
	"rawid": func(raw json.RawMessage) *vk.Violation {
		var c gen.PCase
		_ = json.Unmarshal(raw, &c)
		s, v := ref.FromJ(c.Vals)
		if s == nil {
			return vk.Violf("", c, "unknown spec %s", c.Vals.Spec)
		}
		return gen.LayoutEncodeRawID(gen.ByID(s.ID()), v)
	},
	"overlong": func(raw json.RawMessage) *vk.Violation {
		var c gen.PCase
		_ = json.Unmarshal(raw, &c)
		s, v := ref.FromJ(c.Vals)
		if s == nil {
			return vk.Violf("", c, "unknown spec %s", c.Vals.Spec)
		}
		return gen.Overlong(gen.ByID(s.ID()), v, c.OverField)
	},
}

func init() { reg["sequence"] = vk.SequenceReplayer(reg) }

func TestReplay(t *testing.T) { vk.RunReplay(t, reg) }

func TestSelf(t *testing.T) {
	if p := gen.CoverageSelfTest(); len(p) > 0 {
		t.Fatalf("HARNESS-INTEGRITY: the field tables do not cover the library's structs:\n%v", p)
	}
	rec.RunProbes(t, reg)
	rec.RunRegress(t, reg)
}

func classify(b *gen.Binding, v *ref.Vals) {
	s := b.Spec
	rec.Class("type:" + s.ID())
	for _, f := range s.Fields {
		switch f.Kind {
		case ref.Len8, ref.Len32:
			switch n := v.U(f.Name); {
			case n == 0:
				rec.Class("body_len=0")
			case n < 255:
				rec.Class("body_len=1..254")
			case n == 255:
				rec.Class("body_len=255")
			default:
				rec.Class("body_len>255")
			}
		case ref.Count8:
			switch n := v.U(f.Name); {
			case n == 0:
				rec.Class("count=0")
			case n <= 12:
				rec.Class("count=1..12")
			case n < 255:
				rec.Class("count=13..254")
			default:
				rec.Class("count=255")
			}
		case ref.FixStr:
			if len(v.B(f.Name)) == f.W {
				rec.Class("text_field_at_exact_width")
			}
		case ref.Bin:
			for _, x := range v.B(f.Name) {
				if x == 0 {
					rec.Class("authenticator_contains_00")
					break
				}
			}
		case ref.TLVTail, ref.OptTail:
			if len(v.T(f.Name)) > 0 {
				rec.Class("tail_present")
				for _, t := range v.T(f.Name) {
					if len(t.Val) >= 4096 {
						rec.Class("tail_value>=4096")
					}
				}
			}
		}
	}
}

func opts() gen.Opts {
	return gen.Opts{BigBodies: true, BigTails: true}
}

// TestRoundTripPerType gives every one of the 57 types (and the status-report
// body) its own rapid run, so each type receives -rapid.checks cases per shard.
func TestRoundTripPerType(t *testing.T) {
	for _, b := range gen.Bindings {
		b := b
		t.Run(b.Spec.ID(), rapid.MakeCheck(func(t *rapid.T) {
			v := gen.DrawVals(t, b, opts())
			rec.Eval()
			if gen.NonTrivial(b.Spec, v) {
				rec.NonTrivial(b.Spec.ID(), ref.Encode(b.Spec, v))
			}
			classify(b, v)
			rec.Sample(b.Spec.Proto, ref.ToJ(b.Spec, v))
			rec.ReportSeq(t, "roundtrip", gen.PCase{Vals: ref.ToJ(b.Spec, v)}, func() *vk.Violation { return gen.RoundTrip(b, v) })
			if gen.HasHexID(b.Spec) {
				rec.Eval()
				rec.Report(t, "rawid", gen.LayoutEncodeRawID(b, v))
			}
		}))
	}
}

// fixed-width slots: FixStr, Bin, HexID and list entries.
func slots(s *ref.PDUSpec) []ref.Field {
	var out []ref.Field
	for _, f := range s.Fields {
		switch f.Kind {
		case ref.FixStr, ref.Bin, ref.HexID, ref.List:
			out = append(out, f)
		}
	}
	return out
}

// TestOverlong: from a well-formed assignment one fixed-width field is replaced
// by a value of width+1..width+8; IEncode must fail without emitting bytes.
func TestOverlong(t *testing.T) {
	var with []*gen.Binding
	for _, b := range gen.Bindings {
		if len(slots(b.Spec)) > 0 {
			with = append(with, b)
		}
	}
	rapid.Check(t, func(t *rapid.T) {
		b := with[rapid.IntRange(0, len(with)-1).Draw(t, "type")]
		v := gen.DrawVals(t, b, gen.Opts{})
		sl := slots(b.Spec)
		f := sl[rapid.IntRange(0, len(sl)-1).Draw(t, "slot")]
		extra := rapid.IntRange(1, 8).Draw(t, "extra")
		long := rapid.SliceOfN(rapid.ByteRange(1, 255), f.W+extra, f.W+extra).Draw(t, "long")
		if f.Kind == ref.List {
			l := v.L(f.Name)
			if len(l) == 0 {
				l = [][]byte{nil}
				v.F[ref.CountFieldFor(b.Spec, f.Name)] = uint64(1)
			}
			l = append([][]byte{}, l...)
			l[rapid.IntRange(0, len(l)-1).Draw(t, "entry")] = long
			v.F[f.Name] = l
		} else {
			v.F[f.Name] = long
		}
		rec.Eval()
		rec.NonTrivial("over", b.Spec.ID(), f.Name, long)
		rec.Class("overlong:" + kindName(f.Kind))
		rec.Sample("overlong", map[string]any{"spec": b.Spec.ID(), "field": f.Name, "width": f.W, "len": len(long)})
		rec.Report(t, "overlong", gen.Overlong(b, v, f.Name))
	})
}

func kindName(k ref.Kind) string {
	switch k {
	case ref.FixStr:
		return "text"
	case ref.Bin:
		return "authenticator"
	case ref.HexID:
		return "smgp-msgid"
	case ref.List:
		return "list-entry"
	}
	return fmt.Sprint(k)
}

// TestSoak: the same few small PDUs encoded and decoded 70 000 times in one process (more calls than any
// 16-bit counter holds, enough to cycle every pool many times): the k-th result equals the first.
func TestSoak(t *testing.T) {
	env := rec.Env()
	n := env.Pick(70000, 300000)
	i := 0
	for _, b := range gen.Bindings {
		i++
		if !env.Mine(i) {
			continue
		}
		v := gen.SeedVals(b, uint64(i)*104729+uint64(env.Seed), 2, 5)
		c := b.Fill(v)
		first, err := c.IEncode()
		if err != nil {
			continue
		}
		for k := 0; k < n; k++ {
			out, err := c.IEncode()
			// optional parameters are a set: their order in the image follows Go's map iteration and may differ from
			// call to call, so images of types with an optional part are compared as header + mandatory part + multiset
			same := bytes.Equal(out, first)
			if !same && err == nil && b.Spec.HasTail() {
				same = gen.SameImage(b.Spec, ref.MandatoryLen(b.Spec, gen.Normalise(b, v)), first, out) == ""
			}
			if err != nil || !same {
				rec.Report(t, "roundtrip", vk.Violf(b.Spec.ID()+"/soak/encode-result-drifts", gen.PCase{Vals: ref.ToJ(b.Spec, v), Note: fmt.Sprintf("encode number %d of the same value", k+2)}, "%s: encode number %d of the same value returned %x, %v; the first returned %x", b.Spec.ID(), k+2, clip(out), err, clip(first)))
				break
			}
			if k%16 == 0 {
				p := b.New()
				if err := p.IDecode(out); err != nil {
					rec.Report(t, "roundtrip", vk.Violf(b.Spec.ID()+"/soak/decode-fails", gen.PCase{Vals: ref.ToJ(b.Spec, v), Note: fmt.Sprintf("decode number %d", k/16+1)}, "%s: decode number %d of the same image failed: %v", b.Spec.ID(), k/16+1, err))
					break
				}
			}
		}
		rec.EvalN(int64(n))
		rec.Class("soak")
	}
}

func clip(b []byte) []byte {
	if len(b) > 40 {
		return b[:40]
	}
	return b
}
