// C20 — packet reader/writer primitives are mutually inverse with sticky errors.
package c20

import (
	"bytes"
	"encoding/binary"
	"encoding/json"
	"fmt"
	"math"
	"os"
	"testing"

	"github.com/hujm2023/go-sms-protocol/packet"
	"pgregory.net/rapid"

	"verifharness/gen"
	"verifharness/vk"
)

var rec = vk.NewRecorder("C20")

func TestMain(m *testing.M) {
	vk.Disturb = gen.Disturb
	code := m.Run()
	rec.Flush("all")
	os.Exit(code)
}

// Op is one primitive call with its arguments (hex for octet strings).
type Op struct {
	K string `json:"k"` // u8 u16 u32 u64 bytes str cstr fix | r_u8.. r_bytes r_cstrn r_cstrnw r_cstr r_nbytes r_all r_rem
	U uint64 `json:"u,omitempty"`
	S string `json:"s,omitempty"` // hex
	N int    `json:"n,omitempty"`
}

type WCase struct {
	Ops []Op `json:"ops"`
}

type RCase struct {
	Input string `json:"input"` // hex
	Ops   []Op   `json:"ops"`
}

func be(n int, u uint64) []byte {
	b := make([]byte, 8)
	binary.BigEndian.PutUint64(b, u)
	return b[8-n:]
}

// checkWriter runs a write history against the byte model, checks the
// invariants after every step, and (when no failure was injected) mirrors the
// history with the matching read primitives.
func checkWriter(c WCase) *vk.Violation {
	var v *vk.Violation
	if pn := vk.Guarded("writer", "Writer/hang", func() any { return c }, func() { v = runWriter(c) }); pn != "" {
		return vk.Violf("Writer/panic", c, "writer history panicked\n%s", pn)
	}
	return v
}

func runWriter(c WCase) *vk.Violation {
	w := packet.NewPacketWriter()
	defer w.Release()
	var model []byte
	failed := false
	firstErr := ""
	writtenAtFail := 0
	for i, op := range c.Ops {
		s := vk.UnHex(op.S)
		switch op.K {
		case "u8":
			w.WriteUint8(uint8(op.U))
			if !failed {
				model = append(model, be(1, op.U&0xff)...)
			}
		case "u16":
			w.WriteUint16(uint16(op.U))
			if !failed {
				model = append(model, be(2, op.U&0xffff)...)
			}
		case "u32":
			w.WriteUint32(uint32(op.U))
			if !failed {
				model = append(model, be(4, op.U&0xffffffff)...)
			}
		case "u64":
			w.WriteUint64(op.U)
			if !failed {
				model = append(model, be(8, op.U)...)
			}
		case "bytes":
			w.WriteBytes(s)
			if !failed {
				model = append(model, s...)
			}
		case "str":
			w.WriteString(string(s))
			if !failed {
				model = append(model, s...)
			}
		case "cstr":
			w.WriteCString(string(s))
			if !failed {
				model = append(model, s...)
				model = append(model, 0)
			}
		case "fix":
			w.WriteFixedLenString(string(s), op.N)
			if !failed {
				if len(s) > op.N {
					failed = true
					writtenAtFail = len(model)
				} else {
					model = append(model, s...)
					model = append(model, make([]byte, op.N-len(s))...)
				}
			}
		}
		// invariants after every step
		if !failed {
			if e := w.Error(); e != nil {
				return vk.Violf("Writer/unexpected-error", c, "step %d (%s): Error() = %v although the model accepts the operation", i, op.K, e)
			}
			if w.Written() != len(model) || w.Len() != len(model) {
				return vk.Violf("Writer/count", c, "step %d (%s): Written()=%d Len()=%d, model has %d octets", i, op.K, w.Written(), w.Len(), len(model))
			}
			// the full images are compared after every step while the packet is small; for large ones (the
			// comparison is linear in the size) after the step that made it large, every 8th step and at the end
			if len(model) > 4096 && i%8 != 0 && i != len(c.Ops)-1 && len(s) < 1000 {
				continue
			}
			b, err := w.Bytes()
			if err != nil || !bytes.Equal(b, model) {
				return vk.Violf("Writer/Bytes", c, "step %d (%s): Bytes() = %x, %v; model %x", i, op.K, b, err, model)
			}
			if w.Written() != len(model) || w.Len() != len(model) {
				return vk.Violf("Writer/count", c, "step %d (%s): Written()=%d Len()=%d, model has %d octets", i, op.K, w.Written(), w.Len(), len(model))
			}
			if hx := w.HexString(); hx != vk.Hex(model) {
				return vk.Violf("Writer/HexString", c, "step %d (%s): HexString() = %s; model %x", i, op.K, hx, model)
			}
			bl, err := w.BytesWithLength()
			want := append(be(4, uint64(len(model)+4)), model...)
			if err != nil || !bytes.Equal(bl, want) {
				return vk.Violf("Writer/BytesWithLength", c, "step %d (%s): BytesWithLength() = %x, %v; want %x", i, op.K, bl, err, want)
			}
		} else {
			e := w.Error()
			if e == nil {
				return vk.Violf("Writer/error-not-sticky", c, "step %d (%s): Error() is nil after a failed operation", i, op.K)
			}
			if firstErr == "" {
				firstErr = e.Error()
			} else if e.Error() != firstErr {
				return vk.Violf("Writer/first-error-replaced", c, "step %d (%s): Error() changed from %q to %q", i, op.K, firstErr, e.Error())
			}
			if b, err := w.Bytes(); err == nil || b != nil {
				return vk.Violf("Writer/Bytes-after-error", c, "step %d (%s): Bytes() = %x, %v after a failure", i, op.K, b, err)
			}
			if b, err := w.BytesWithLength(); err == nil || b != nil {
				return vk.Violf("Writer/BytesWithLength-after-error", c, "step %d (%s): BytesWithLength() = %x, %v after a failure", i, op.K, b, err)
			}
			if hx := w.HexString(); hx != "" {
				return vk.Violf("Writer/HexString-after-error", c, "step %d (%s): HexString() = %q after a failure", i, op.K, hx)
			}
			if w.Len() != 0 {
				return vk.Violf("Writer/Len-after-error", c, "step %d (%s): Len() = %d after a failure", i, op.K, w.Len())
			}
			if w.Written() != writtenAtFail {
				return vk.Violf("Writer/Written-grows-after-error", c, "step %d (%s): Written() = %d, it was %d when the first operation failed (later operations must add nothing)", i, op.K, w.Written(), writtenAtFail)
			}
		}
	}
	if failed {
		return nil
	}
	// mirrored read sequence
	data, _ := w.Bytes()
	r := packet.NewPacketReader(data)
	type held struct {
		i    int
		k    string
		b    []byte // a []byte result kept as returned (not copied)
		want string
	}
	var kept []held
	defer func() { _ = kept }()
	for i, op := range c.Ops {
		s := vk.UnHex(op.S)
		var got, want any
		switch op.K {
		case "u8":
			got, want = uint64(r.ReadUint8()), op.U&0xff
		case "u16":
			got, want = uint64(r.ReadUint16()), op.U&0xffff
		case "u32":
			got, want = uint64(r.ReadUint32()), op.U&0xffffffff
		case "u64":
			got, want = r.ReadUint64(), op.U
		case "bytes":
			if i%2 == 0 {
				buf := make([]byte, len(s))
				r.ReadBytes(buf)
				got, want = string(buf), string(s)
			} else {
				nb := r.ReadNBytes(len(s))
				kept = append(kept, held{i, op.K, nb, string(s)}) // looked at again after all later reads
				got, want = string(nb), string(s)
			}
		case "str":
			got, want = r.ReadCStringNWithoutTrim(len(s)), string(s)
		case "cstr":
			got, want = r.ReadCString(), string(s)
		case "fix":
			x := s
			if k := bytes.IndexByte(x, 0); k >= 0 {
				x = x[:k]
			}
			got, want = r.ReadCStringN(op.N), string(x)
		}
		if got != want {
			return vk.Violf("mirror/"+op.K, c, "mirror step %d (%s): read %q, written %q", i, op.K, got, want)
		}
		if e := r.Error(); e != nil {
			return vk.Violf("mirror/error", c, "mirror step %d (%s): reader error %v", i, op.K, e)
		}
	}
	if r.Remaining() != 0 {
		return vk.Violf("mirror/remaining", c, "after the mirrored reads %d octets remain", r.Remaining())
	}
	// values returned earlier belong to the caller: later reads on the same reader must not have changed them
	for _, h := range kept {
		if string(h.b) != h.want {
			return vk.Violf("mirror/earlier-read-result-changed", c, "the octets returned by read %d (%s) changed after later reads on the same reader: now %x, written %x", h.i, h.k, h.b, h.want)
		}
	}
	return nil
}

func checkReader(c RCase) *vk.Violation {
	var v *vk.Violation
	if pn := vk.Guarded("reader", "Reader/hang", func() any { return c }, func() { v = runReader(c) }); pn != "" {
		return vk.Violf("Reader/panic", c, "reader history panicked\n%s", pn)
	}
	return v
}

func runReader(c RCase) *vk.Violation {
	in := vk.UnHex(c.Input)
	r := packet.NewPacketReader(append([]byte{}, in...))
	pos := 0
	failed := false
	firstErr := ""
	lastRem := len(in)
	for i, op := range c.Ops {
		rem := len(in) - pos
		var got, want any
		wantFail := false
		num := func(n int) {
			if failed || rem < n {
				wantFail = true
				want = uint64(0)
				return
			}
			var u uint64
			for _, b := range in[pos : pos+n] {
				u = u<<8 | uint64(b)
			}
			want = u
			pos += n
		}
		switch op.K {
		case "r_u8":
			num(1)
			got = uint64(r.ReadUint8())
		case "r_u16":
			num(2)
			got = uint64(r.ReadUint16())
		case "r_u32":
			num(4)
			got = uint64(r.ReadUint32())
		case "r_u64":
			num(8)
			got = r.ReadUint64()
		case "r_bytes":
			buf := make([]byte, op.N)
			r.ReadBytes(buf)
			if failed {
				wantFail = true
				got, want = string(buf), string(make([]byte, op.N))
			} else if op.N == 0 {
				got, want = "", ""
			} else if rem < op.N {
				wantFail = true
				// the receiver may hold the octets that were available, never anything else
				if !bytes.Equal(buf[:rem], in[pos:pos+rem]) && !bytes.Equal(buf[:rem], make([]byte, rem)) {
					return vk.Violf("Reader/ReadBytes-foreign-data", c, "step %d: short ReadBytes left %x in the receiver, input there is %x", i, buf, in[pos:])
				}
				if !bytes.Equal(buf[rem:], make([]byte, op.N-rem)) {
					return vk.Violf("Reader/ReadBytes-beyond-end", c, "step %d: ReadBytes wrote beyond the available input: %x", i, buf)
				}
				got, want = "", ""
			} else {
				got, want = string(buf), string(in[pos:pos+op.N])
				pos += op.N
			}
		case "r_cstrn", "r_cstrnw", "r_nbytes":
			switch op.K {
			case "r_cstrn":
				got = r.ReadCStringN(op.N)
			case "r_cstrnw":
				got = r.ReadCStringNWithoutTrim(op.N)
			default:
				got = string(r.ReadNBytes(op.N))
			}
			switch {
			case failed:
				wantFail, want = true, ""
			case op.N <= 0:
				want = ""
			case rem < op.N:
				wantFail, want = true, ""
			default:
				x := in[pos : pos+op.N]
				if op.K == "r_cstrn" {
					if k := bytes.IndexByte(x, 0); k >= 0 {
						x = x[:k]
					}
				}
				want = string(x)
				pos += op.N
			}
		case "r_cstr":
			got = r.ReadCString()
			k := -1
			if !failed {
				k = bytes.IndexByte(in[pos:], 0)
			}
			if failed || k < 0 {
				wantFail, want = true, ""
			} else {
				want = string(in[pos : pos+k])
				pos += k + 1
			}
		case "r_all":
			got = string(r.Bytes())
			if failed {
				want = ""
			} else {
				want = string(in[pos:])
			}
		case "r_rem":
			got, want = 0, 0
		case "r_hex":
			got = r.HexString()
			if failed {
				want = ""
			} else {
				want = vk.Hex(in[pos:])
			}
		}
		if wantFail {
			failed = true
		}
		if got != want {
			return vk.Violf("Reader/"+op.K, c, "step %d (%s n=%d): returned %q, model %q (failed=%v)", i, op.K, op.N, got, want, failed)
		}
		e := r.Error()
		if failed {
			if e == nil {
				return vk.Violf("Reader/error-not-sticky", c, "step %d (%s): Error() is nil after a failed read", i, op.K)
			}
			if firstErr == "" {
				firstErr = e.Error()
			} else if e.Error() != firstErr {
				return vk.Violf("Reader/first-error-replaced", c, "step %d (%s): Error() changed from %q to %q", i, op.K, firstErr, e.Error())
			}
		} else {
			if e != nil {
				return vk.Violf("Reader/unexpected-error", c, "step %d (%s n=%d): Error() = %v although %d octets remain", i, op.K, op.N, e, rem)
			}
			if r.Remaining() != len(in)-pos {
				return vk.Violf("Reader/Remaining", c, "step %d (%s): Remaining() = %d, model %d", i, op.K, r.Remaining(), len(in)-pos)
			}
		}
		if r.Remaining() < 0 || r.Remaining() > lastRem {
			return vk.Violf("Reader/Remaining-monotone", c, "step %d (%s): Remaining() went from %d to %d", i, op.K, lastRem, r.Remaining())
		}
		lastRem = r.Remaining()
	}
	return nil
}

var reg = vk.Registry{
	"writer": func(raw json.RawMessage) *vk.Violation {
		var c WCase
		_ = json.Unmarshal(raw, &c)
		return checkWriter(c)
	},
	"reader": func(raw json.RawMessage) *vk.Violation {
		var c RCase
		_ = json.Unmarshal(raw, &c)
		return checkReader(c)
	},
}

func init() { reg["sequence"] = vk.SequenceReplayer(reg) }

func TestReplay(t *testing.T) { vk.RunReplay(t, reg) }

func TestSelf(t *testing.T) {
	rec.RunProbes(t, reg)
	rec.RunRegress(t, reg)
}

func hexGen(maxLen int, nulFree bool) *rapid.Generator[string] {
	return rapid.Custom(func(t *rapid.T) string {
		lo := byte(0)
		if nulFree {
			lo = 1
		}
		var b []byte
		if cls := rapid.IntRange(0, 35).Draw(t, "long"); cls <= 2 {
			b = rapid.SliceOfN(rapid.ByteRange(lo, 255), 0, maxLen).Draw(t, "s")
		} else if cls == 3 && maxLen >= 300 {
			// around and beyond 255/256 and larger: sizes no PDU field reaches
			n := rapid.SampledFrom([]int{254, 255, 256, 257, 511, 512, 1000, 4095, 4096, 4097, 32767, 32768, 32769, 65535, 65536, 66000}).Draw(t, "biglen")
			b = bytes.Repeat([]byte{byte(0x41 + n%20)}, n)
		} else {
			b = rapid.SliceOfN(rapid.ByteRange(lo, 255), 0, 12).Draw(t, "s")
		}
		return vk.Hex(b)
	})
}

var writeOp = rapid.Custom(func(t *rapid.T) Op {
	k := rapid.SampledFrom([]string{"u8", "u16", "u32", "u64", "bytes", "str", "cstr", "fix", "fix"}).Draw(t, "k")
	op := Op{K: k}
	switch k {
	case "u8", "u16", "u32", "u64":
		op.U = rapid.OneOf(rapid.Uint64(), rapid.SampledFrom([]uint64{0, 1, 0x7f, 0x80, 0xff, 0x100, 0xffff, 0x10000, 0xffffffff, 1 << 32, ^uint64(0)})).Draw(t, "u")
	case "bytes", "str":
		op.S = hexGen(300, false).Draw(t, "s")
	case "cstr":
		op.S = hexGen(300, true).Draw(t, "s")
	case "fix":
		op.S = hexGen(40, false).Draw(t, "s")
		l := len(op.S) / 2
		switch rapid.IntRange(0, 9).Draw(t, "nclass") {
		case 0:
			op.N = rapid.IntRange(-1, l).Draw(t, "n") // may be too short: injected failure
			if op.N >= 0 && op.N < l && rapid.Bool().Draw(t, "blanktail") {
				// the part that does not fit consists of blanks (or NULs): still too long, still a failure
				b := vk.UnHex(op.S)
				fillc := rapid.SampledFrom([]byte{' ', ' ', 0, '\t'}).Draw(t, "fillc")
				for k := op.N; k < len(b); k++ {
					b[k] = fillc
				}
				op.S = vk.Hex(b)
			}
		case 1:
			op.N = l
		default:
			op.N = l + rapid.IntRange(0, 300-l).Draw(t, "pad")
		}
	}
	return op
})

func TestWriterHistories(t *testing.T) {
	rapid.Check(t, func(t *rapid.T) {
		ops := rapid.SliceOfN(writeOp, 0, 200).Draw(t, "ops")
		if rapid.Bool().Draw(t, "nofailure") {
			// half of the histories carry no injected failure, so that long histories reach the mirrored reads
			for i := range ops {
				if ops[i].K == "fix" && len(ops[i].S)/2 > ops[i].N {
					ops[i].N = len(ops[i].S)/2 + ops[i].N&7
				}
			}
		}
		c := WCase{Ops: ops}
		rec.Eval()
		failAt := -1
		for i, op := range ops {
			if op.K == "fix" && len(op.S)/2 > op.N {
				failAt = i
				break
			}
		}
		switch {
		case failAt >= 0 && failAt < len(ops)-1:
			rec.NonTrivial("w", fmt.Sprint(ops))
			rec.Class("writer_failure_followed_by_more_ops")
		case failAt < 0 && len(ops) >= 3:
			rec.NonTrivial("w", fmt.Sprint(ops))
			rec.Class("writer_mirrored_len>=3")
		default:
			rec.Class("writer_trivial")
		}
		rec.Sample("writer", c)
		rec.ReportSeq(t, "writer", c, func() *vk.Violation { return checkWriter(c) })
	})
}

var readOp = rapid.Custom(func(t *rapid.T) Op {
	k := rapid.SampledFrom([]string{"r_u8", "r_u16", "r_u32", "r_u64", "r_bytes", "r_cstrn", "r_cstrnw", "r_cstr", "r_nbytes", "r_all", "r_rem", "r_hex"}).Draw(t, "k")
	op := Op{K: k}
	switch k {
	case "r_bytes":
		op.N = rapid.IntRange(0, 40).Draw(t, "n")
	case "r_cstrn", "r_cstrnw", "r_nbytes":
		op.N = rapid.OneOf(rapid.IntRange(-1, 40), rapid.IntRange(-1, 300), rapid.IntRange(-1, 40),
			// lengths taken from a hostile field: the largest values of every integer width (offset + n must not wrap)
			rapid.SampledFrom([]int{math.MaxInt, math.MaxInt - 1, math.MaxInt - 7, math.MaxInt32, math.MaxInt32 + 1, 1 << 32, math.MaxUint32, math.MinInt, math.MinInt32, 65535, 65536})).Draw(t, "n")
	}
	return op
})

func TestReaderHistories(t *testing.T) {
	rapid.Check(t, func(t *rapid.T) {
		in := rapid.SliceOfN(rapid.OneOf(rapid.Byte(), rapid.Just(byte(0))), 0, 120).Draw(t, "input")
		if rapid.IntRange(0, 5).Draw(t, "longinput") == 0 {
			// a long NUL-free run (terminated or not) in front: C strings longer than any PDU field
			run := bytes.Repeat([]byte{0x61}, rapid.SampledFrom([]int{255, 256, 257, 600, 5000}).Draw(t, "runlen"))
			if rapid.Bool().Draw(t, "terminated") {
				run = append(run, 0)
			}
			in = append(run, in...)
		}
		ops := rapid.SliceOfN(readOp, 0, 60).Draw(t, "ops")
		c := RCase{Input: vk.Hex(in), Ops: ops}
		rec.Eval()
		if len(ops) >= 3 {
			rec.NonTrivial("r", c.Input, fmt.Sprint(ops))
			rec.Class("reader_len>=3")
		}
		rec.Sample("reader", c)
		rec.ReportSeq(t, "reader", c, func() *vk.Violation { return checkReader(c) })
	})
}
