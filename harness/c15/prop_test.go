// C15 — login authenticators verify end-to-end for all credentials.
package c15

import (
	"bytes"
	"crypto/md5"
	"encoding/binary"
	"encoding/json"
	"fmt"
	"os"
	"testing"
	"time"

	"github.com/hujm2023/go-sms-protocol/cmpp"
	"github.com/hujm2023/go-sms-protocol/cmpp/cmpp20"
	"github.com/hujm2023/go-sms-protocol/cmpp/cmpp30"
	"github.com/hujm2023/go-sms-protocol/smgp"
	"github.com/hujm2023/go-sms-protocol/smgp/smgp30"
	"pgregory.net/rapid"

	"verifharness/gen"
	"verifharness/vk"
)

var rec = vk.NewRecorder("C15")

func TestMain(m *testing.M) {
	vk.Disturb = gen.Disturb
	code := m.Run()
	rec.Flush("all")
	os.Exit(code)
}

type Case struct {
	Exchange  string `json:"exchange"` // cmpp20 | cmpp30 | smgp30
	Account   string `json:"account_hex"`
	Secret    string `json:"secret_hex"`
	Timestamp uint32 `json:"timestamp"`
	Status    uint32 `json:"status"`
}

// reference digests, straight from the specifications
func refRequestAuth(exchange string, account, secret []byte, ts uint32) []byte {
	pad := 9
	if exchange == "smgp30" {
		pad = 7
	}
	h := md5.New()
	h.Write(account)
	h.Write(make([]byte, pad))
	h.Write(secret)
	h.Write([]byte(fmt.Sprintf("%010d", ts)))
	return h.Sum(nil)
}

func refResponseAuth(exchange string, status uint32, reqAuth, secret []byte) []byte {
	h := md5.New()
	if exchange == "cmpp20" {
		h.Write([]byte{byte(status)})
	} else {
		var b [4]byte
		binary.BigEndian.PutUint32(b[:], status)
		h.Write(b[:])
	}
	h.Write(reqAuth)
	h.Write(secret)
	return h.Sum(nil)
}

func nulClass(d []byte) string {
	switch {
	case d[15] == 0:
		return "ends-in-00"
	case bytes.IndexByte(d, 0) >= 0:
		return "contains-00"
	}
	return "no-00"
}

func recvKey(what string, sent []byte, got string) string {
	if sent[15] == 0 && got == string(bytes.TrimRight(sent, "\x00")) {
		return what + "/trailing-00-stripped"
	}
	return what + "/" + nulClass(sent)
}

func check(c Case) *vk.Violation {
	account, secret := vk.UnHex(c.Account), vk.UnHex(c.Secret)
	reqAuth := refRequestAuth(c.Exchange, account, secret, c.Timestamp)
	status := c.Status
	if c.Exchange == "cmpp20" {
		status &= 0xff
	}
	respAuth := refResponseAuth(c.Exchange, status, reqAuth, secret)
	var viol *vk.Violation
	pn := vk.Guarded("auth", c.Exchange+"/hang", func() any { return c }, func() {
		// (1) the library's generators equal the reference digests
		if c.Exchange != "smgp30" {
			if got := cmpp.TimeStamp2Str(c.Timestamp); got != fmt.Sprintf("%010d", c.Timestamp) {
				viol = vk.Violf("TimeStamp2Str", c, "TimeStamp2Str(%d) = %q", c.Timestamp, got)
				return
			}
			if got := cmpp.GenConnectAuth(string(account), string(secret), cmpp.TimeStamp2Str(c.Timestamp)); !bytes.Equal(got, reqAuth) {
				viol = vk.Violf("GenConnectAuth", c, "GenConnectAuth = %x, MD5(account|9x00|secret|timestamp) = %x", got, reqAuth)
				return
			}
			sb := []byte{byte(status)}
			if c.Exchange == "cmpp30" {
				sb = make([]byte, 4)
				binary.BigEndian.PutUint32(sb, status)
			}
			// the status octets as they sit in a received frame: a sub-slice of a larger buffer. The digest
			// function must not write to (or behind) its arguments.
			frame := make([]byte, 0, 64)
			frame = append(frame, 0xC1, 0xC2)
			frame = append(frame, sb...)
			frame = append(frame, bytes.Repeat([]byte{0xEE}, 40)...)
			canary := append([]byte{}, frame...)
			_ = cmpp.GenConnectRespAuthISMG(frame[2:2+len(sb)], string(reqAuth), string(secret))
			if !bytes.Equal(frame, canary) {
				viol = vk.Violf("GenConnectRespAuthISMG/writes-to-callers-buffer", c, "GenConnectRespAuthISMG overwrote the caller's buffer behind the status octets: %x became %x", canary[:24], frame[:24])
				return
			}
			if got := cmpp.GenConnectRespAuthISMG(sb, string(reqAuth), string(secret)); !bytes.Equal(got, respAuth) {
				viol = vk.Violf("GenConnectRespAuthISMG", c, "GenConnectRespAuthISMG = %x, MD5(status|request authenticator|secret) = %x", got, respAuth)
				return
			}
		}
		// (2) request: encode, transmit, decode; the peer's recomputation must equal what it received
		var recvReq, recvResp string
		switch c.Exchange {
		case "cmpp20":
			p := &cmpp20.PduConnect{Header: cmpp.NewHeader(0, cmpp.CommandConnect, 1), SourceAddr: string(account), AuthenticatorSource: string(reqAuth), Version: 0x20, Timestamp: c.Timestamp}
			img, err := p.IEncode()
			q := new(cmpp20.PduConnect)
			if err == nil {
				err = q.IDecode(img)
				reuse(img) // the receive buffer is used for the next read before the authenticator is verified
			}
			if err != nil {
				viol = vk.Violf("cmpp20.PduConnect/codec-error", c, "connect does not survive encode+decode: %v", err)
				return
			}
			recvReq = q.AuthenticatorSource
			if q.Timestamp != c.Timestamp || q.SourceAddr != string(account) {
				viol = vk.Violf("cmpp20.PduConnect/credentials", c, "peer received account %q timestamp %d", q.SourceAddr, q.Timestamp)
				return
			}
			r := &cmpp20.PduConnectResp{Header: cmpp.NewHeader(0, cmpp.CommandConnectResp, 1), Status: uint8(status), AuthenticatorISMG: string(respAuth), Version: 0x20}
			img, err = r.IEncode()
			rq := new(cmpp20.PduConnectResp)
			if err == nil {
				err = rq.IDecode(img)
				reuse(img) // the receive buffer is used for the next read before the authenticator is verified
			}
			if err != nil {
				viol = vk.Violf("cmpp20.PduConnectResp/codec-error", c, "connect response does not survive encode+decode: %v", err)
				return
			}
			recvResp = rq.AuthenticatorISMG
		case "cmpp30":
			p := &cmpp30.Connect{Header: cmpp.NewHeader(0, cmpp.CommandConnect, 1), SourceAddr: string(account), AuthenticatorSource: string(reqAuth), Version: 0x30, Timestamp: c.Timestamp}
			img, err := p.IEncode()
			q := new(cmpp30.Connect)
			if err == nil {
				err = q.IDecode(img)
				reuse(img) // the receive buffer is used for the next read before the authenticator is verified
			}
			if err != nil {
				viol = vk.Violf("cmpp30.Connect/codec-error", c, "connect does not survive encode+decode: %v", err)
				return
			}
			recvReq = q.AuthenticatorSource
			r := &cmpp30.ConnectResp{Header: cmpp.NewHeader(0, cmpp.CommandConnectResp, 1), Status: status, AuthenticatorISMG: string(respAuth), Version: 0x30}
			img, err = r.IEncode()
			rq := new(cmpp30.ConnectResp)
			if err == nil {
				err = rq.IDecode(img)
				reuse(img) // the receive buffer is used for the next read before the authenticator is verified
			}
			if err != nil {
				viol = vk.Violf("cmpp30.ConnectResp/codec-error", c, "connect response does not survive encode+decode: %v", err)
				return
			}
			recvResp = rq.AuthenticatorISMG
		case "smgp30":
			p := &smgp30.Login{Header: smgp.NewHeader(0, smgp.CommandLogin, 1), ClientID: string(account), AuthenticatorClient: string(reqAuth), LoginMode: 2, Timestamp: c.Timestamp, Version: 0x30}
			img, err := p.IEncode()
			q := new(smgp30.Login)
			if err == nil {
				err = q.IDecode(img)
				reuse(img) // the receive buffer is used for the next read before the authenticator is verified
			}
			if err != nil {
				viol = vk.Violf("smgp30.Login/codec-error", c, "login does not survive encode+decode: %v", err)
				return
			}
			recvReq = q.AuthenticatorClient
			r := &smgp30.LoginResp{Header: smgp.NewHeader(0, smgp.CommandLoginResp, 1), Status: status, AuthenticatorServer: string(respAuth), ServerVersion: 0x30}
			img, err = r.IEncode()
			rq := new(smgp30.LoginResp)
			if err == nil {
				err = rq.IDecode(img)
				reuse(img) // the receive buffer is used for the next read before the authenticator is verified
			}
			if err != nil {
				viol = vk.Violf("smgp30.LoginResp/codec-error", c, "login response does not survive encode+decode: %v", err)
				return
			}
			recvResp = rq.AuthenticatorServer
		}
		reqName := map[string]string{"cmpp20": "cmpp20.PduConnect.AuthenticatorSource", "cmpp30": "cmpp30.Connect.AuthenticatorSource", "smgp30": "smgp30.Login.AuthenticatorClient"}[c.Exchange]
		respName := map[string]string{"cmpp20": "cmpp20.PduConnectResp.AuthenticatorISMG", "cmpp30": "cmpp30.ConnectResp.AuthenticatorISMG", "smgp30": "smgp30.LoginResp.AuthenticatorServer"}[c.Exchange]
		if recvReq != string(reqAuth) {
			viol = vk.Violf(recvKey(reqName, reqAuth, recvReq), c, "%s: sent %x, the peer received %x and its recomputation (%x) does not match - a correct client is refused", reqName, reqAuth, recvReq, reqAuth)
			return
		}
		if recvResp != string(respAuth) {
			viol = vk.Violf(recvKey(respName, respAuth, recvResp), c, "%s: sent %x, the client received %x and its recomputation (%x) does not match - a correct server is refused", respName, respAuth, recvResp, respAuth)
			return
		}
	})
	if pn != "" {
		return vk.Violf(c.Exchange+"/panic", c, "panic\n%s", pn)
	}
	return viol
}

// reuse overwrites a receive buffer the way the next read of a connection does.
func reuse(b []byte) {
	for i := range b {
		b[i] = 0xEE ^ byte(i)
	}
}

type CtorCase struct {
	Which   string `json:"which"`
	Account string `json:"account"`
	Secret  string `json:"secret"`
	// the constructors read the wall clock in the process time zone themselves; 1..12 moves the process
	// zone (time.Local, a fixed zone) so that the local date falls on the 15th of that month, 0 leaves it
	LocalMonth int `json:"local_month,omitempty"`
	LocalHour  int `json:"local_hour,omitempty"`
}

// constructors take the clock themselves: recompute from the timestamp they put in the PDU
func checkCtor(c CtorCase) *vk.Violation {
	if c.LocalMonth >= 1 && c.LocalMonth <= 12 {
		now := time.Now().UTC()
		want := time.Date(now.Year(), time.Month(c.LocalMonth), 15, c.LocalHour%24, now.Minute(), now.Second(), 0, time.UTC)
		saved := time.Local
		time.Local = time.FixedZone("P", int(want.Sub(now)/time.Second))
		defer func() { time.Local = saved }()
	}
	switch c.Which {
	case "cmpp20.NewConnect":
		p := cmpp20.NewConnect(c.Account, c.Secret, 7)
		want := refRequestAuth("cmpp20", []byte(c.Account), []byte(c.Secret), p.Timestamp)
		if p.AuthenticatorSource != string(want) || p.SourceAddr != c.Account {
			return vk.Violf("cmpp20.NewConnect/digest", c, "NewConnect: authenticator %x, MD5 over its own timestamp %d gives %x", p.AuthenticatorSource, p.Timestamp, want)
		}
		// the PDU is the caller's: it rotates the secret (same account, same timestamp) and sets the new
		// digest itself; what goes on the wire must be what the PDU holds
		other := refRequestAuth("cmpp20", []byte(c.Account), []byte(c.Secret+"-rotated"), p.Timestamp)
		p.AuthenticatorSource = string(other)
		if img, err := p.IEncode(); err == nil {
			q := new(cmpp20.PduConnect)
			if err := q.IDecode(img); err != nil || q.AuthenticatorSource != string(other) {
				return vk.Violf("cmpp20.NewConnect/authenticator-set-by-caller-not-sent", c, "a PDU from NewConnect whose AuthenticatorSource the caller set to %x arrives with %x (%v): the peer's recomputation with the new secret fails", other, q.AuthenticatorSource, err)
			}
		}
	case "smgp30.NewLogin":
		p := smgp30.NewLogin(c.Account, c.Secret, 7)
		want := refRequestAuth("smgp30", []byte(c.Account), []byte(c.Secret), p.Timestamp)
		if p.AuthenticatorClient != string(want) || p.ClientID != c.Account {
			return vk.Violf("smgp30.NewLogin/digest", c, "NewLogin: authenticator %x, MD5 over its own timestamp %d gives %x", p.AuthenticatorClient, p.Timestamp, want)
		}
		other := refRequestAuth("smgp30", []byte(c.Account), []byte(c.Secret+"-rotated"), p.Timestamp)
		p.AuthenticatorClient = string(other)
		if img, err := p.IEncode(); err == nil {
			q := new(smgp30.Login)
			if err := q.IDecode(img); err != nil || q.AuthenticatorClient != string(other) {
				return vk.Violf("smgp30.NewLogin/authenticator-set-by-caller-not-sent", c, "a PDU from NewLogin whose AuthenticatorClient the caller set to %x arrives with %x (%v)", other, q.AuthenticatorClient, err)
			}
		}
	}
	return nil
}

type ClockCase struct {
	StartUnix int64 `json:"start_unix"`
	StartNs   int64 `json:"start_ns"`
	StepMs    int64 `json:"step_ms"` // the clock advances by this much on every reading
}

// checkClock: GenConnectTimestamp returns the timestamp as text and as number; whatever the clock does
// between its readings, the two must denote the same MMDDHHMMSS value (the digest is computed over the
// text, the PDU carries the number), and with a constant clock they must be that instant's MMDDHHMMSS.
func checkClock(c ClockCase) *vk.Violation {
	n := int64(0)
	clock := func() time.Time {
		t := time.Unix(c.StartUnix, c.StartNs).Add(time.Duration(n*c.StepMs) * time.Millisecond).UTC()
		n++
		return t
	}
	var str string
	var num uint32
	if pn := vk.Guarded("clock", "GenConnectTimestamp/hang", func() any { return c }, func() { str, num = cmpp.GenConnectTimestamp(clock) }); pn != "" {
		return vk.Violf("GenConnectTimestamp/panic", c, "panic\n%s", pn)
	}
	if str != fmt.Sprintf("%010d", num) {
		return vk.Violf("GenConnectTimestamp/text-and-number-differ", c, "GenConnectTimestamp returned text %q and number %d: the authenticator is computed over the text, the PDU carries the number, the peer's recomputation fails", str, num)
	}
	if c.StepMs == 0 {
		t := time.Unix(c.StartUnix, c.StartNs).UTC()
		want := fmt.Sprintf("%02d%02d%02d%02d%02d", int(t.Month()), t.Day(), t.Hour(), t.Minute(), t.Second())
		if str != want {
			return vk.Violf("GenConnectTimestamp/value", c, "GenConnectTimestamp at %s returned %q, want %q", t.Format(time.RFC3339), str, want)
		}
	}
	return nil
}

var reg = vk.Registry{
	"clock": func(raw json.RawMessage) *vk.Violation {
		var c ClockCase
		_ = json.Unmarshal(raw, &c)
		return checkClock(c)
	},
	"auth": func(raw json.RawMessage) *vk.Violation { var c Case; _ = json.Unmarshal(raw, &c); return check(c) },
	"ctor": func(raw json.RawMessage) *vk.Violation {
		var c CtorCase
		_ = json.Unmarshal(raw, &c)
		return checkCtor(c)
	},
}

func init() { reg["sequence"] = vk.SequenceReplayer(reg) }

func TestReplay(t *testing.T) { vk.RunReplay(t, reg) }

func TestExchanges(t *testing.T) {
	rec.RunProbes(t, reg)
	rec.RunRegress(t, reg)
	rapid.Check(t, func(t *rapid.T) {
		c := Case{Exchange: rapid.SampledFrom([]string{"cmpp20", "cmpp30", "smgp30"}).Draw(t, "exchange")}
		maxAcc := 6
		if c.Exchange == "smgp30" {
			maxAcc = 8
		}
		account := rapid.SliceOfN(rapid.OneOf(rapid.ByteRange('0', '9'), rapid.ByteRange(1, 255)), 0, maxAcc).Draw(t, "account")
		secret := rapid.SliceOfN(rapid.OneOf(rapid.ByteRange(0x21, 0x7e), rapid.ByteRange(1, 255)), 0, 32).Draw(t, "secret")
		c.Account, c.Secret = vk.Hex(account), vk.Hex(secret)
		c.Timestamp = rapid.OneOf(rapid.Uint32Range(0, 1231235959), rapid.SampledFrom([]uint32{0, 1, 101000000, 999999999, 1000000000, 1231235959})).Draw(t, "timestamp")
		c.Status = uint32(rapid.OneOf(rapid.Uint64Range(0, 255), rapid.Uint64Range(0, 1<<32-1)).Draw(t, "status"))
		// steer half of the cases to a digest with 0x00 at a drawn position (bounded deterministic scan over the timestamp)
		if steer := rapid.IntRange(0, 5).Draw(t, "steer"); steer < 3 {
			which := rapid.SampledFrom([]string{"req", "resp"}).Draw(t, "steerwhich")
			for k := uint32(0); k < 4000; k++ {
				ts := (c.Timestamp + k) % 1231235960
				d := refRequestAuth(c.Exchange, account, secret, ts)
				if which == "resp" {
					st := c.Status
					if c.Exchange == "cmpp20" {
						st &= 0xff
					}
					d = refResponseAuth(c.Exchange, st, d, secret)
				}
				hit := (steer == 0 && bytes.IndexByte(d, 0) >= 0) || (steer == 1 && d[0] == 0) || (steer == 2 && d[15] == 0)
				if hit {
					c.Timestamp = ts
					break
				}
			}
		}
		rq := refRequestAuth(c.Exchange, account, secret, c.Timestamp)
		st := c.Status
		if c.Exchange == "cmpp20" {
			st &= 0xff
		}
		rs := refResponseAuth(c.Exchange, st, rq, secret)
		rec.Eval()
		for _, d := range [][]byte{rq, rs} {
			if bytes.IndexByte(d, 0) >= 0 {
				rec.NonTrivial(c.Exchange, c.Account, c.Secret, c.Timestamp, c.Status)
				rec.Class("digest_contains_00")
				if d[15] == 0 {
					rec.Class("digest_ends_in_00")
				}
				if d[0] == 0 {
					rec.Class("digest_starts_with_00")
				}
				break
			}
		}
		rec.Class("exchange:" + c.Exchange)
		rec.Sample(c.Exchange, map[string]any{"case": c, "request_digest": vk.Hex(rq), "response_digest": vk.Hex(rs)})
		rec.ReportSeq(t, "auth", c, func() *vk.Violation { return check(c) })
	})
}

func TestConstructors(t *testing.T) {
	rapid.Check(t, func(t *rapid.T) {
		c := CtorCase{Which: rapid.SampledFrom([]string{"cmpp20.NewConnect", "smgp30.NewLogin"}).Draw(t, "which"),
			Account: rapid.StringMatching(`[0-9a-zA-Z:|/ ]{0,6}`).Draw(t, "account"), Secret: rapid.StringMatching(`[ -~]{0,32}`).Draw(t, "secret")}
		if c.Which == "smgp30.NewLogin" && rapid.Bool().Draw(t, "longid") {
			c.Account = rapid.StringMatching(`[0-9]{7,8}`).Draw(t, "account8")
		}
		if rapid.IntRange(0, 1).Draw(t, "shiftmonth") == 0 {
			c.LocalMonth = rapid.IntRange(1, 12).Draw(t, "localmonth")
			c.LocalHour = rapid.IntRange(0, 23).Draw(t, "localhour")
			rec.Class("constructor_in_local_month:" + fmt.Sprintf("%02d", c.LocalMonth))
		}
		rec.Eval()
		rec.Class("constructor:" + c.Which)
		rec.ReportSeq(t, "ctor", c, func() *vk.Violation { return checkCtor(c) })
		// a second credential pair that shares its concatenation with the first - (a+sep+b, c) vs (a, b+sep+c) -
		// right afterwards: whatever is remembered between logins must be keyed by the pair, not by a join of it
		if len(c.Account) >= 1 {
			for _, sep := range []string{":", "", "|", "/", " "} {
				max := 6
				if c.Which == "smgp30.NewLogin" {
					max = 8
				}
				first := CtorCase{Which: c.Which, Account: c.Account + sep + "k", Secret: c.Secret}
				second := CtorCase{Which: c.Which, Account: c.Account, Secret: "k" + sep + c.Secret}
				if sep != "" {
					second.Secret = "k" + sep + c.Secret
					first = CtorCase{Which: c.Which, Account: c.Account + sep + "k", Secret: c.Secret}
					second = CtorCase{Which: c.Which, Account: c.Account, Secret: "k" + sep + c.Secret}
					// joined text equal only in the form account+sep+secret: "a:k"+":"+"s" vs "a"+":"+"k:s"
				}
				if len(first.Account) > max {
					continue
				}
				rec.Eval()
				rec.Class("colliding_credential_pairs")
				if v := checkCtor(first); v != nil {
					rec.Report(t, "ctor", v)
				}
				if v := checkCtor(second); v != nil && vk.IsKnown("C15", v.Key) {
					rec.Report(t, "ctor", v)
				} else if v != nil {
					v.Key = "after-colliding-pair/" + v.Key
					v.Case = vk.SeqCase{Kind: "ctor", First: first, Then: second}
					rec.Report(t, "sequence", v)
				}
			}
		}
	})
}

func TestTimestampClock(t *testing.T) {
	rapid.Check(t, func(t *rapid.T) {
		c := ClockCase{StartUnix: rapid.Int64Range(946684800, 4102444799).Draw(t, "start"),
			StartNs: rapid.SampledFrom([]int64{0, 1, 400_000_000, 600_000_000, 999_999_999}).Draw(t, "ns"),
			StepMs:  rapid.SampledFrom([]int64{0, 0, 1, 400, 600, 1000, 61_000, 3_600_000}).Draw(t, "step")}
		if rapid.Bool().Draw(t, "nearrollover") {
			// just before a minute / day / month / year boundary
			y := rapid.IntRange(2000, 2099).Draw(t, "year")
			edges := []time.Time{time.Date(y, 12, 31, 23, 59, 59, 0, time.UTC), time.Date(y, 2, 28, 23, 59, 59, 0, time.UTC),
				time.Date(y, rapid.SampledFrom([]time.Month{1, 4, 9, 10}).Draw(t, "m"), 30, 23, 59, 59, 0, time.UTC), time.Date(y, 6, 15, 11, 59, 59, 0, time.UTC)}
			c.StartUnix = edges[rapid.IntRange(0, len(edges)-1).Draw(t, "edge")].Unix()
		}
		rec.Eval()
		if c.StepMs > 0 {
			rec.NonTrivial("clock", c.StartUnix, c.StartNs, c.StepMs)
			rec.Class("running_clock")
		}
		rec.ReportSeq(t, "clock", c, func() *vk.Violation { return checkClock(c) })
	})
}

// TestCollidingAccounts: pairs of different accounts of equal length that collide under a common 32-bit hash
// (birthday search, vk.CollidingPairs), logging in one right after the other - both orders, all three
// exchanges: whatever the library remembers about short strings it has decoded must be keyed by the string.
func TestCollidingAccounts(t *testing.T) {
	if rec.Env().Shard != 0 {
		return
	}
	const alnum = "0123456789ABCDEFGHIJKLMNOPQRSTUVWXYZabcdefghijklmnopqrstuvwxyz"
	sm := vk.SplitMix(uint64(rec.Env().Seed)*17 + 3)
	var pairs [][2]string
	for _, n := range []int{6, 8} {
		n := n
		pairs = append(pairs, vk.CollidingPairs(func(i uint64) string {
			b := make([]byte, n)
			for k := range b {
				b[k] = alnum[sm.Intn(len(alnum))]
			}
			return string(b)
		}, 400000)...)
	}
	for _, p := range pairs {
		for _, ex := range []string{"cmpp20", "cmpp30", "smgp30"} {
			if ex != "smgp30" && len(p[0]) > 6 {
				continue
			}
			for _, ord := range [][2]string{{p[0], p[1]}, {p[1], p[0]}} {
				first := Case{Exchange: ex, Account: vk.Hex([]byte(ord[0])), Secret: vk.Hex([]byte("secret")), Timestamp: 1021080510, Status: 0}
				then := first
				then.Account = vk.Hex([]byte(ord[1]))
				rec.Eval()
				rec.NonTrivialConstructed(1)
				rec.Class("accounts_colliding_under_a_32_bit_hash")
				if v := check(first); v != nil {
					rec.Report(t, "auth", v)
					continue
				}
				if v := check(then); v != nil {
					if vk.IsKnown("C15", v.Key) {
						rec.Report(t, "auth", v) // a listed finding keeps its own key (and is tolerated as such)
						continue
					}
					v.Key = "after-colliding-account/" + v.Key
					v.Case = vk.SeqCase{Kind: "auth", First: first, Then: then}
					rec.Report(t, "sequence", v)
				}
			}
		}
	}
}
