// C17 — CMPP message id: specified bit layout, lossless split/compose/string form.
package c17

import (
	"encoding/json"
	"fmt"
	"os"
	"testing"

	"github.com/hujm2023/go-sms-protocol/cmpp"
	"pgregory.net/rapid"

	"verifharness/gen"
	"verifharness/vk"
)

var rec = vk.NewRecorder("C17")

func TestMain(m *testing.M) {
	vk.Disturb = gen.Disturb
	code := m.Run()
	rec.Flush("all")
	os.Exit(code)
}

// Tuple is a composition case: the seven in-range fields.
type Tuple struct {
	Month, Day, Hour, Minute, Second, Gateway, Sequence uint64
}

// field widths from CMPP 2.0/3.0 "Msg_Id" (bit64..bit61 month, bit60..bit56 day,
// bit55..bit51 hour, bit50..bit45 minute, bit44..bit39 second, bit38..bit17
// gateway, bit16..bit1 sequence).
var widths = [7]uint{4, 5, 5, 6, 6, 22, 16}

func (t Tuple) arr() [7]uint64 {
	return [7]uint64{t.Month, t.Day, t.Hour, t.Minute, t.Second, t.Gateway, t.Sequence}
}

// refCompose: explicit shifts from the specification's bit numbering.
func refCompose(t Tuple) uint64 {
	return t.Month<<60 | t.Day<<55 | t.Hour<<50 | t.Minute<<44 | t.Second<<38 | t.Gateway<<16 | t.Sequence
}

func refSplit(u uint64) Tuple {
	return Tuple{u >> 60, u >> 55 & 31, u >> 50 & 31, u >> 44 & 63, u >> 38 & 63, u >> 16 & (1<<22 - 1), u & 0xffff}
}

func checkTuple(t Tuple) *vk.Violation {
	want := refCompose(t)
	got := cmpp.CombineMsgID(t.Month, t.Day, t.Hour, t.Minute, t.Second, t.Gateway, t.Sequence)
	if got != want {
		return vk.Violf("CombineMsgID/layout", t, "CombineMsgID(%+v) = %#016x, specification layout gives %#016x", t, got, want)
	}
	a, b, c, d, e, f, g := cmpp.SplitMsgID(got)
	if (Tuple{a, b, c, d, e, f, g}) != t {
		return vk.Violf("SplitMsgID/inverse", t, "SplitMsgID(CombineMsgID(%+v)) = %v", t, []uint64{a, b, c, d, e, f, g})
	}
	return nil
}

type ID struct {
	U uint64
	// First names the function that is called before everything else in this evaluation ("parse": the
	// scanner on the reference rendering, "string", "split"; "" = the usual order). Together with a
	// cold start (vk.ColdEval) every function of the file is met as the very first call of a process.
	First string `json:"first,omitempty"`
}

func refString(u uint64) string {
	r := refSplit(u)
	return fmt.Sprintf("%02d%02d%02d%02d%02d%07d%05d", r.Month, r.Day, r.Hour, r.Minute, r.Second, r.Gateway, r.Sequence)
}

// the first ids this process ever handled: checked once more at the end of the run (TestZFirstAgain), after
// hundreds of thousands of other ids have gone through the same functions
var firstIDs []uint64

func checkID(c ID) *vk.Violation {
	u := c.U
	if len(firstIDs) < 16 && u != 0 {
		firstIDs = append(firstIDs, u)
	}
	switch c.First {
	case "parse":
		if u != 0 {
			if back := cmpp.MsgIDString2Uint64(refString(u)); back != u {
				return vk.Violf("String2Uint64/reference-string", c, "MsgIDString2Uint64(%q) = %#016x, want %#016x (the string is the specified rendering of the id)", refString(u), back, u)
			}
		}
	case "string":
		if s := cmpp.MsgID2String(u); u != 0 && s != refString(u) {
			return vk.Violf("MsgID2String/format", c, "MsgID2String(%#016x) = %q, want %q", u, s, refString(u))
		}
	case "split":
		a, b, cc, d, e, f, g := cmpp.SplitMsgID(u)
		if (Tuple{a, b, cc, d, e, f, g}) != refSplit(u) {
			return vk.Violf("SplitMsgID/layout", c, "SplitMsgID(%#016x) = %v", u, []uint64{a, b, cc, d, e, f, g})
		}
	}
	a, b, cc, d, e, f, g := cmpp.SplitMsgID(u)
	if (Tuple{a, b, cc, d, e, f, g}) != refSplit(u) {
		return vk.Violf("SplitMsgID/layout", c, "SplitMsgID(%#016x) = %v, specification layout gives %+v", u, []uint64{a, b, cc, d, e, f, g}, refSplit(u))
	}
	if back := cmpp.CombineMsgID(a, b, cc, d, e, f, g); back != u {
		return vk.Violf("Combine(Split)/identity", c, "CombineMsgID(SplitMsgID(%#016x)) = %#016x", u, back)
	}
	s := cmpp.MsgID2String(u)
	vk.RetainString("MsgID2String", s) // the string belongs to the caller: later calls must not change it
	if u == 0 {
		if back := cmpp.MsgIDString2Uint64(s); back != 0 { // also exercises the scanner's failure path
			return vk.Violf("String2Uint64/empty", c, "MsgIDString2Uint64(%q) = %#x", s, back)
		}
		return nil
	}
	// The string form is the fixed-width decimal rendering of the seven fields.
	r := refSplit(u)
	wantS := fmt.Sprintf("%02d%02d%02d%02d%02d%07d%05d", r.Month, r.Day, r.Hour, r.Minute, r.Second, r.Gateway, r.Sequence)
	if s != wantS {
		return vk.Violf("MsgID2String/format", c, "MsgID2String(%#016x) = %q, want %q", u, s, wantS)
	}
	if back := cmpp.MsgIDString2Uint64(s); back != u {
		return vk.Violf("String2Uint64(MsgID2String)/identity", c, "MsgIDString2Uint64(%q) = %#016x, want %#016x", s, back, u)
	}
	return nil
}

func topBit(t Tuple) bool {
	a := t.arr()
	for i, w := range widths {
		if a[i]>>(w-1)&1 == 1 {
			return true
		}
	}
	return false
}

var reg = vk.Registry{
	"tuple": func(raw json.RawMessage) *vk.Violation {
		var t Tuple
		_ = json.Unmarshal(raw, &t)
		return checkTuple(t)
	},
	"id": func(raw json.RawMessage) *vk.Violation {
		var c ID
		_ = json.Unmarshal(raw, &c)
		return checkID(c)
	},
}

func init() { reg["sequence"] = vk.SequenceReplayer(reg); reg["cold"] = vk.ColdReplayer() }

func TestReplay(t *testing.T) { vk.RunReplay(t, reg) }

func evalTuple(t vk.TB, tu Tuple) {
	rec.Eval()
	if topBit(tu) {
		rec.NonTrivial("t", fmt.Sprint(tu))
		rec.Class("tuple_top_bit_set")
	}
	rec.Sample("tuple", tu)
	rec.ReportSeq(t, "tuple", tu, func() *vk.Violation { return checkTuple(tu) })
	// the composed id also goes through the id-side checks
	rec.Eval()
	cid := ID{U: refCompose(tu)}
	rec.ReportSeq(t, "id", cid, func() *vk.Violation { return checkID(cid) })
}

// TestEnumFields: each field over its full range with every other field at each
// of its two extremes (all-min / all-max), index-partitioned over the shards.
func TestEnumFields(t *testing.T) {
	vk.RetainEnabled = false
	defer func() { vk.RetainEnabled = true }()
	rec.RunProbes(t, reg)
	env := rec.Env()
	stride := uint64(env.Pick(64, 1)) // quick: 1-in-64 stride of the 2^22 gateway range
	idx := 0
	for f, w := range widths {
		max := uint64(1)<<w - 1
		step := uint64(1)
		if f == 5 {
			step = stride
		}
		for other := 0; other < 2; other++ {
			for v := uint64(0); v <= max; v += step {
				idx++
				if !env.Mine(idx) {
					continue
				}
				var a [7]uint64
				for i, wi := range widths {
					if other == 1 {
						a[i] = uint64(1)<<wi - 1
					}
				}
				a[f] = v
				evalTuple(t, Tuple{a[0], a[1], a[2], a[3], a[4], a[5], a[6]})
				// off-stride neighbours around powers of two for the gateway field
			}
			if f == 5 && step > 1 {
				for b := uint(0); b < 22; b++ {
					for _, d := range []int64{-1, 0, 1} {
						v := uint64(int64(uint64(1)<<b) + d)
						if v > max {
							continue
						}
						var a [7]uint64
						for i, wi := range widths {
							if other == 1 {
								a[i] = uint64(1)<<wi - 1
							}
						}
						a[f] = v
						evalTuple(t, Tuple{a[0], a[1], a[2], a[3], a[4], a[5], a[6]})
					}
				}
			}
		}
	}
	if stride == 1 {
		rec.Exhaustive("every field over its full range with all other fields at all-min and at all-max")
	}
	// 64-bit side: boundary patterns.
	if env.Shard == 0 {
		var pats []uint64
		for b := uint(0); b < 64; b++ {
			pats = append(pats, 1<<b, ^(uint64(1) << b), (uint64(1)<<b)-1)
		}
		shift := []uint{60, 55, 50, 44, 38, 16, 0}
		for i, w := range widths {
			pats = append(pats, (uint64(1)<<w-1)<<shift[i], ^((uint64(1)<<w - 1) << shift[i]))
		}
		pats = append(pats, 0, ^uint64(0), 0xaaaaaaaaaaaaaaaa, 0x5555555555555555)
		for _, u := range pats {
			rec.Eval()
			rec.NonTrivial("id", u)
			rec.Sample("id", fmt.Sprintf("%#016x", u))
			rec.Report(t, "id", checkID(ID{U: u}))
		}
	}
}

func TestRandom(t *testing.T) {
	rapid.Check(t, func(t *rapid.T) {
		var a [7]uint64
		for i, w := range widths {
			max := uint64(1)<<w - 1
			a[i] = rapid.OneOf(rapid.Uint64Range(0, max), rapid.SampledFrom([]uint64{0, 1, max, max - 1, max >> 1, max>>1 + 1})).Draw(t, fmt.Sprintf("f%d", i))
		}
		evalTuple(t, Tuple{a[0], a[1], a[2], a[3], a[4], a[5], a[6]})
		u := rapid.Uint64().Draw(t, "id")
		rec.Eval()
		rec.NonTrivial("id", u)
		rec.ReportSeq(t, "id", ID{U: u}, func() *vk.Violation { return checkID(ID{U: u}) })
	})
}

// TestColdStart: every function of the file as the first library call of a fresh process (shard 0 only).
func TestColdStart(t *testing.T) {
	if rec.Env().Shard != 0 {
		return
	}
	ids := []uint64{refCompose(Tuple{10, 3, 23, 59, 58, 1234567, 65535}), refCompose(Tuple{1, 1, 0, 0, 1, 1, 1}), ^uint64(0)}
	for i, first := range []string{"parse", "string", "split", ""} {
		c := ID{U: ids[i%len(ids)], First: first}
		rec.Eval()
		rec.NonTrivialConstructed(1)
		rec.Class("cold_start_first_call:" + map[string]string{"": "combine/split"}[first] + first)
		if v := vk.ColdEval("id", c); v != nil {
			rec.Report(t, "cold", v)
		}
	}
	tu := Tuple{12, 31, 23, 59, 59, 1<<22 - 1, 65535}
	rec.Eval()
	if v := vk.ColdEval("tuple", tu); v != nil {
		rec.Report(t, "cold", v)
	}
}

// TestZFirstAgain runs last (tests run in source order): the ids formatted first in this process must still
// format and parse correctly after everything else - a bounded memo that wraps, a table that fills up.
func TestZFirstAgain(t *testing.T) {
	// make sure more distinct ids than any 16-bit sized memo holds have been formatted in this process
	for i := uint64(1); i <= 70000; i++ {
		_ = cmpp.MsgID2String(i<<20 | i)
	}
	for _, u := range firstIDs {
		rec.Eval()
		rec.Class("first_ids_checked_again_at_the_end")
		if v := checkID(ID{U: u}); v != nil {
			v.Key = "after-70000-other-ids/" + v.Key
			rec.Report(t, "id", v)
		}
	}
}

// TestCollidingStrings: pairs of different, valid 22-digit id strings that collide under a common 32-bit
// hash (found by birthday search over generated ids, vk.CollidingPairs), parsed one right after the other,
// both orders: a memo of recent parses keyed by a checksum of the text returns the other string's id.
func TestCollidingStrings(t *testing.T) {
	if rec.Env().Shard != 0 {
		return
	}
	sm := vk.SplitMix(uint64(rec.Env().Seed)*31 + 5)
	pairs := vk.CollidingPairs(func(i uint64) string {
		// realistic ids: calendar time stamps, a gateway code of up to 6 digits, any sequence number
		tu := Tuple{uint64(1 + sm.Intn(12)), uint64(1 + sm.Intn(28)), uint64(sm.Intn(24)), uint64(sm.Intn(60)), uint64(sm.Intn(60)), uint64(sm.Intn(1000000)), uint64(sm.Intn(65536))}
		return refString(refCompose(tu))
	}, 500000)
	for _, p := range pairs {
		for _, ord := range [][2]string{{p[0], p[1]}, {p[1], p[0]}} {
			rec.Eval()
			rec.NonTrivialConstructed(1)
			rec.Class("id_strings_colliding_under_a_32_bit_hash")
			c := CollideCase{First: ord[0], Then: ord[1]}
			rec.Report(t, "collide", checkCollide(c))
		}
	}
	if len(pairs) == 0 {
		t.Log("no colliding pair found in this sample")
	}
}

type CollideCase struct {
	First string `json:"first"`
	Then  string `json:"then"`
}

func parseRef(s string) uint64 {
	var f [7]uint64
	w := []int{2, 2, 2, 2, 2, 7, 5}
	pos := 0
	for i, n := range w {
		for _, ch := range s[pos : pos+n] {
			f[i] = f[i]*10 + uint64(ch-'0')
		}
		pos += n
	}
	return refCompose(Tuple{f[0], f[1], f[2], f[3], f[4], f[5], f[6]})
}

func checkCollide(c CollideCase) *vk.Violation {
	a, b := cmpp.MsgIDString2Uint64(c.First), cmpp.MsgIDString2Uint64(c.Then)
	if a != parseRef(c.First) {
		return vk.Violf("String2Uint64/colliding-strings", c, "MsgIDString2Uint64(%q) = %#016x, want %#016x", c.First, a, parseRef(c.First))
	}
	if b != parseRef(c.Then) {
		return vk.Violf("String2Uint64/colliding-strings", c, "MsgIDString2Uint64(%q) right after parsing %q (same length, same 32-bit checksum) = %#016x, want %#016x", c.Then, c.First, b, parseRef(c.Then))
	}
	return nil
}

func init() {
	reg["collide"] = func(raw json.RawMessage) *vk.Violation {
		var c CollideCase
		_ = json.Unmarshal(raw, &c)
		return checkCollide(c)
	}
}
