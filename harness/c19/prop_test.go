// C19 — SMPP validity-period strings denote exactly the requested time.
package c19

import (
	"encoding/json"
	"fmt"
	"os"
	"strings"
	"testing"
	"time"

	"github.com/hujm2023/go-sms-protocol/smpp"
	"pgregory.net/rapid"

	"verifharness/gen"
	"verifharness/vk"
)

var rec = vk.NewRecorder("C19")

func TestMain(m *testing.M) {
	vk.Disturb = gen.Disturb
	code := m.Run()
	rec.Flush("all")
	os.Exit(code)
}

// Case: the duration string, what it denotes (ns; Valid=false: unparsable), the instant and the form.
type Case struct {
	Dur      string `json:"dur"`
	Valid    bool   `json:"valid"`
	Nanos    int64  `json:"nanos"`
	NowUnix  int64  `json:"now_unix"`
	NowNanos int64  `json:"now_nanos"`
	ZoneSecs int    `json:"zone_secs"` // 0 = UTC, else a fixed zone east of UTC
	Relative bool   `json:"relative"`
	// the PROCESS time zone (time.Local) while the call runs: 0 = UTC as in this sandbox, else a fixed zone
	// this many seconds east of UTC. The result must not depend on it (a validity period denotes an
	// instant / a duration, and the absolute form is defined in UTC).
	LocalSecs int `json:"process_zone_secs,omitempty"`
}

func (c Case) now() time.Time {
	t := time.Unix(c.NowUnix, c.NowNanos).UTC()
	if c.ZoneSecs != 0 {
		t = t.In(time.FixedZone("Z", c.ZoneSecs))
	}
	return t
}

// parse16 is the hand-written parser of the 16-character SMPP time format:
// twelve decimal digits YYMMDDhhmmss, tenths digit, two-digit quarter-hour
// offset, and the sign/relative indicator.
func parse16(s string) (f [6]int, tenths, nn int, p byte, ok bool) {
	if len(s) != 16 {
		return
	}
	for i := 0; i < 15; i++ {
		if s[i] < '0' || s[i] > '9' {
			return
		}
	}
	for i := 0; i < 6; i++ {
		f[i] = int(s[2*i]-'0')*10 + int(s[2*i+1]-'0')
	}
	tenths = int(s[12] - '0')
	nn = int(s[13]-'0')*10 + int(s[14]-'0')
	p = s[15]
	return f, tenths, nn, p, true
}

func check(c Case) *vk.Violation {
	var out string
	var err error
	if pn := vk.Guarded("period", "ToValidatePeriod/hang", func() any { return c }, func() {
		if c.LocalSecs != 0 {
			saved := time.Local
			time.Local = time.FixedZone("P", c.LocalSecs)
			defer func() { time.Local = saved }()
		}
		out, err = smpp.ToValidatePeriod(c.now(), c.Dur, c.Relative)
	}); pn != "" {
		return vk.Violf("ToValidatePeriod/panic", c, "ToValidatePeriod panicked\n%s", pn)
	}
	vk.RetainString("ToValidatePeriod", out)
	form := "absolute"
	if c.Relative {
		form = "relative"
	}
	if !c.Valid {
		if err == nil {
			return vk.Violf(form+"/unparsable-accepted", c, "unparsable duration %q accepted, result %q", c.Dur, out)
		}
		return nil
	}
	if c.Nanos < 0 {
		if err == nil {
			return vk.Violf(form+"/negative-accepted", c, "negative duration %q accepted, result %q", c.Dur, out)
		}
		return nil
	}
	secs := c.Nanos / 1e9
	if c.Relative {
		const day = 86400
		if err != nil {
			if secs < 31*day {
				return vk.Violf("relative/refused-below-31d", c, "duration %q (%d s) is representable but was refused: %v", c.Dur, secs, err)
			}
			return nil // not representable without month/year fields: refusing is allowed
		}
		if out == "" {
			if secs == 0 {
				return nil
			}
			return vk.Violf("relative/empty-for-nonzero", c, "duration %q (%d s) yields the empty string (= use the default) instead of a time or an error", c.Dur, secs)
		}
		f, tenths, nn, p, ok := parse16(out)
		if !ok || p != 'R' || tenths != 0 || nn != 0 {
			return vk.Violf("relative/format", c, "duration %q: result %q is not YYMMDDhhmmss000R", c.Dur, out)
		}
		if f[3] >= 24 || f[4] >= 60 || f[5] >= 60 {
			return vk.Violf("relative/field-range", c, "duration %q: result %q has an out-of-range field", c.Dur, out)
		}
		base := int64(f[2])*day + int64(f[3])*3600 + int64(f[4])*60 + int64(f[5])
		lo := base + int64(f[1])*28*day + int64(f[0])*365*day
		hi := base + int64(f[1])*31*day + int64(f[0])*366*day
		if secs < lo || secs > hi {
			return vk.Violf("relative/inexact", c, "duration %q is %d s, result %q denotes %d..%d s", c.Dur, secs, out, lo, hi)
		}
		return nil
	}
	// absolute
	if err != nil {
		return vk.Violf("absolute/refused", c, "non-negative duration %q refused in absolute form: %v", c.Dur, err)
	}
	target := time.Unix(c.NowUnix, c.NowNanos).UTC().Add(time.Duration(c.Nanos)).Truncate(time.Second)
	if target.Year() < 2000 || target.Year() > 2099 {
		// a two-digit year cannot tell the century: what instant the string means is outside the stated domain,
		// but whatever is returned is still "empty or a 16-character SMPP time" - never a malformed string
		if out != "" {
			f, tenths, nn, p, ok := parse16(out)
			if !ok || p != '+' || tenths != 0 || nn != 0 || f[1] < 1 || f[1] > 12 || f[2] < 1 || f[2] > 31 || f[3] >= 24 || f[4] >= 60 || f[5] >= 60 {
				return vk.Violf("absolute/format-beyond-2099", c, "now=%s + %q (target year %d): result %q is not a 16-character YYMMDDhhmmss000+ time", c.now().Format(time.RFC3339), c.Dur, target.Year(), out)
			}
		}
		return nil
	}
	if out == "" && c.Nanos == 0 {
		return nil
	}
	f, tenths, nn, p, ok := parse16(out)
	if !ok || p != '+' || tenths != 0 || nn != 0 {
		return vk.Violf("absolute/format", c, "duration %q: result %q is not YYMMDDhhmmss000+", c.Dur, out)
	}
	if f[1] < 1 || f[1] > 12 || f[2] < 1 || f[2] > 31 || f[3] >= 24 || f[4] >= 60 || f[5] >= 60 {
		return vk.Violf("absolute/field-range", c, "duration %q: result %q has an out-of-range field", c.Dur, out)
	}
	got := time.Date(2000+f[0], time.Month(f[1]), f[2], f[3], f[4], f[5], 0, time.UTC)
	if !got.Equal(target) || got.Day() != f[2] {
		return vk.Violf("absolute/wrong-instant", c, "now=%s + %q should be %s UTC, result %q denotes %s", c.now().Format(time.RFC3339Nano), c.Dur, target.Format(time.RFC3339), out, got.Format(time.RFC3339))
	}
	return nil
}

var reg = vk.Registry{"period": func(raw json.RawMessage) *vk.Violation {
	var c Case
	_ = json.Unmarshal(raw, &c)
	return check(c)
}}

func init() { reg["sequence"] = vk.SequenceReplayer(reg) }

func TestReplay(t *testing.T) { vk.RunReplay(t, reg) }

// render writes a non-negative number of nanoseconds in one of several
// time.ParseDuration notations, exactly (integer components only).
func render(t *rapid.T, ns int64) string {
	neg := ns < 0
	if neg {
		ns = -ns
	}
	secs, frac := ns/1e9, ns%1e9
	var s string
	switch rapid.IntRange(0, 4).Draw(t, "notation") {
	case 0:
		s = fmt.Sprintf("%dh%dm%ds", secs/3600, secs/60%60, secs%60)
	case 1:
		s = fmt.Sprintf("%ds", secs)
	case 2:
		s = fmt.Sprintf("%dm%ds", secs/60, secs%60)
	case 3:
		if secs%1800 == 0 && frac == 0 { // exact half hours as a decimal fraction
			s = fmt.Sprintf("%d.%dh", secs/3600, secs%3600/360)
		} else {
			s = fmt.Sprintf("%dh%ds", secs/3600, secs%3600)
		}
	default:
		s = fmt.Sprintf("%dh%dm%ds", secs/3600, secs/60%60, secs%60)
	}
	if frac != 0 {
		switch {
		case frac%1e6 == 0:
			s += fmt.Sprintf("%dms", frac/1e6)
		case frac%1e3 == 0:
			s += fmt.Sprintf("%dus", frac/1e3)
		default:
			s += fmt.Sprintf("%dns", frac)
		}
	}
	if neg {
		s = "-" + s
	} else if rapid.IntRange(0, 7).Draw(t, "plus") == 0 {
		s = "+" + s
	}
	return s
}

// renderSingleUnit writes a whole number of seconds / minutes / hours as ONE count and ONE unit, optionally
// with leading zeros (valid time.ParseDuration input: "010s" is ten seconds, not octal).
func renderSingleUnit(t *rapid.T, secs int64) (string, bool) {
	unit, div := "s", int64(1)
	switch {
	case secs%3600 == 0 && rapid.Bool().Draw(t, "ash"):
		unit, div = "h", 3600
	case secs%60 == 0 && rapid.Bool().Draw(t, "asm"):
		unit, div = "m", 60
	}
	width := rapid.SampledFrom([]int{0, 0, 2, 3, 4, 6}).Draw(t, "zeropad")
	s := fmt.Sprintf("%0*d%s", width, secs/div, unit)
	if rapid.IntRange(0, 5).Draw(t, "plus1") == 0 {
		s = "+" + s
	}
	return s, true
}

const day = int64(86400)

var boundarySecs = func() []int64 {
	b := []int64{0, 1, 59, 60, 61, 3599, 3600, 3601, 86399, 86400, 86401}
	for k := int64(1); k <= 40; k++ {
		b = append(b, k*day-1, k*day, k*day+1)
	}
	for _, k := range []int64{99, 100, 365, 366, 36500} {
		b = append(b, k*day-1, k*day, k*day+1)
	}
	b = append(b, 30*day+23*3600+59*60+59, 744*3600, 768*3600)
	return b
}()

var nowGen = rapid.Custom(func(t *rapid.T) [3]int64 {
	lo := time.Date(2000, 1, 1, 0, 0, 0, 0, time.UTC).Unix()
	hi := time.Date(2099, 12, 31, 23, 59, 59, 0, time.UTC).Unix()
	var u int64
	switch rapid.IntRange(0, 3).Draw(t, "nowclass") {
	case 0:
		y := rapid.IntRange(2000, 2099).Draw(t, "year")
		edges := []time.Time{
			time.Date(y, 12, 31, 23, 59, 59, 0, time.UTC), time.Date(y, 1, 1, 0, 0, 0, 0, time.UTC),
			time.Date(y, 2, 28, 23, 59, 59, 0, time.UTC), time.Date(y, 2, 29, 12, 0, 0, 0, time.UTC),
			time.Date(y, 3, 1, 0, 0, 0, 0, time.UTC), time.Date(y, rapid.SampledFrom([]time.Month{1, 3, 4, 6, 9, 11}).Draw(t, "m"), 30, 23, 59, 59, 0, time.UTC),
		}
		u = edges[rapid.IntRange(0, len(edges)-1).Draw(t, "edge")].Unix()
	default:
		u = rapid.Int64Range(lo, hi).Draw(t, "now")
	}
	if u > hi {
		u = hi
	}
	ns := rapid.SampledFrom([]int64{0, 0, 1, 500_000_000, 999_999_999}).Draw(t, "nownanos")
	zone := rapid.SampledFrom([]int{0, 0, 0, 8 * 3600, -5 * 3600, 5*3600 + 1800, 14 * 3600, -12 * 3600}).Draw(t, "zone")
	return [3]int64{u, ns, int64(zone)}
})

func classify(c Case) {
	secs := c.Nanos / 1e9
	switch {
	case !c.Valid:
		rec.Class("unparsable")
	case c.Nanos < 0:
		rec.Class("negative")
	case secs == 0:
		rec.Class("zero_whole_seconds")
	case secs >= 31*day:
		rec.Class("ge_31_days")
	default:
		rec.Class("lt_31_days")
	}
	if c.Valid && (secs%60 == 0 || secs%60 == 59 || secs%60 == 1) {
		rec.Class("unit_boundary_pm1s")
	}
	if c.Relative {
		rec.Class("relative")
	} else {
		rec.Class("absolute")
	}
}

func periodsProp(t *rapid.T) {
	n := nowGen.Draw(t, "now")
	c := Case{NowUnix: n[0], NowNanos: n[1], ZoneSecs: int(n[2]), Relative: rapid.Bool().Draw(t, "relative"), Valid: true}
	if rapid.IntRange(0, 2).Draw(t, "processzone") == 0 {
		// Asia/Shanghai, US west coast, India (half hour), Nepal (quarter hour), the date line, and a shift of months
		c.LocalSecs = rapid.SampledFrom([]int{8 * 3600, -8 * 3600, 19800, 20700, 14 * 3600, -12 * 3600, 1, -1, 150 * 86400, -150 * 86400}).Draw(t, "localsecs")
		rec.Class("process_time_zone_not_utc")
	}
	switch rapid.IntRange(0, 11).Draw(t, "durclass") {
	case 0:
		c.Valid = false
		c.Dur = rapid.SampledFrom([]string{"", "1d", "abc", "1h-", "h", "1", "--1s", "1w", "1h 30m", "１s", " 1s", "1.2.3s"}).Draw(t, "bad")
	case 1:
		c.Nanos = -rapid.Int64Range(1, 400*day*1e9).Draw(t, "neg")
		if rapid.Bool().Draw(t, "minus1s") {
			c.Nanos = -1e9
		}
	case 2, 3, 4:
		c.Nanos = boundarySecs[rapid.IntRange(0, len(boundarySecs)-1).Draw(t, "boundary")] * 1e9
	case 5:
		c.Nanos = rapid.Int64Range(0, 100*365*day).Draw(t, "secs100y") * 1e9
	case 6:
		c.Nanos = rapid.Int64Range(0, 40*day*1e9).Draw(t, "nanos") // with sub-second part
	case 7:
		c.Nanos = rapid.Int64Range(0, 2400).Draw(t, "hours") * 3600 * 1e9
	default:
		c.Nanos = rapid.Int64Range(0, 31*day-1).Draw(t, "secs") * 1e9
	}
	if c.Valid {
		c.Dur = render(t, c.Nanos)
		if c.Nanos >= 0 && c.Nanos%1e9 == 0 && rapid.IntRange(0, 3).Draw(t, "singleunit") == 0 {
			c.Dur, _ = renderSingleUnit(t, c.Nanos/1e9)
		}
		d, err := time.ParseDuration(c.Dur)
		if err != nil || int64(d) != c.Nanos {
			t.Fatalf("HARNESS: rendered %q for %d ns but ParseDuration gives %v, %v", c.Dur, c.Nanos, d, err)
		}
	} else if _, err := time.ParseDuration(c.Dur); err == nil {
		t.Fatalf("HARNESS: %q was meant to be unparsable", c.Dur)
	}
	rec.Eval()
	if c.Valid && c.Nanos >= 1e9 {
		rec.NonTrivial(c.Dur, c.NowUnix, c.NowNanos, c.ZoneSecs, c.Relative)
	}
	classify(c)
	rec.Sample(strings.Split("absolute relative", " ")[map[bool]int{false: 0, true: 1}[c.Relative]], c)
	rec.ReportSeq(t, "period", c, func() *vk.Violation { return check(c) })
}

func TestPeriods(t *testing.T) {
	rec.RunProbes(t, reg)
	rec.RunRegress(t, reg)
	rapid.Check(t, periodsProp)
}

// FuzzPeriods: the validity-period property driven by the coverage-guided fuzzer (thorough tier).
func FuzzPeriods(f *testing.F) { f.Fuzz(rapid.MakeFuzz(periodsProp)) }

// TestWholeHours: every whole-hour duration up to 100 days, both forms (thorough: every minute of the first 3 days too).
func TestWholeHours(t *testing.T) {
	env := rec.Env()
	now := time.Date(2024, 2, 28, 23, 30, 0, 0, time.UTC)
	idx := 0
	run := func(secs int64, s string) {
		idx++
		if !env.Mine(idx) {
			return
		}
		for _, rel := range []bool{true, false} {
			c := Case{Dur: s, Valid: true, Nanos: secs * 1e9, NowUnix: now.Unix() + secs%977, Relative: rel}
			rec.Eval()
			rec.NonTrivialConstructed(1)
			rec.Report(t, "period", check(c))
		}
	}
	for h := int64(1); h <= 2400; h++ {
		run(h*3600, fmt.Sprintf("%dh", h))
	}
	rec.Exhaustive("all whole-hour durations 1..2400 h, both forms")
	if env.Thorough() {
		for m := int64(1); m <= 3*1440; m++ {
			run(m*60, fmt.Sprintf("%dm", m))
		}
		for s := int64(1); s <= 7200; s++ {
			run(s, fmt.Sprintf("%ds", s))
		}
		rec.Exhaustive("all whole-minute durations up to 3 days and all whole-second durations up to 2 h, both forms")
	}
}
