package c03

import (
	"encoding/binary"
	"encoding/json"
	"fmt"
	"os"
	"strings"
	"testing"

	"pgregory.net/rapid"

	"verifharness/gen"
	"verifharness/ref"
	"verifharness/vk"
)

var rec = vk.NewRecorder("C03")

func TestMain(m *testing.M) {
	code := m.Run()
	rec.Flush("all")
	os.Exit(code)
}

type Case struct {
	Target string `json:"target"`
	Data   string `json:"data_hex"`
	// MustFail: the input ends before the mandatory part of the PDU is complete, decoding must report an error
	MustFail bool   `json:"must_fail,omitempty"`
	Note     string `json:"note,omitempty"`
}

const allocSlack = 1 << 20

// Probe runs one target on one input: no panic, returns within the watchdog,
// allocation proportional to the input, and (truncation clause) an error when
// the mandatory part is incomplete.
func Probe(target string, data []byte, mustFail bool, note string) *vk.Violation {
	i, okT := targetIndex[target]
	if !okT {
		return vk.Violf("", nil, "unknown target %q", target)
	}
	mk := func() any { return Case{Target: target, Data: vk.Hex(data), MustFail: mustFail, Note: note} }
	in := append([]byte{}, data...)
	var ok bool
	before := heapAllocs()
	pn := vk.Guarded("probe", target+"/hang", mk, func() { ok = Targets[i].F(in) })
	delta := heapAllocs() - before
	if pn != "" {
		return vk.Violf(target+"/panic", mk(), "%s panicked on %d octets %x (%s)\n%s", target, len(data), clip(data), note, pn)
	}
	limit := uint64(allocSlack + 64*len(data))
	// The allocation counter is process-wide. Other goroutines of the test binary
	// (the native fuzz worker's RPC loop, for instance) may allocate during the
	// call, so an excess is re-measured twice: an allocation caused by the input
	// reproduces every time, noise does not.
	for retry := 0; retry < 2 && delta > limit; retry++ {
		in2 := append([]byte{}, data...)
		b2 := heapAllocs()
		vk.Guarded("probe", target+"/hang", mk, func() { Targets[i].F(in2) })
		if d2 := heapAllocs() - b2; d2 < delta {
			delta = d2
		}
	}
	if delta > limit {
		return vk.Violf(target+"/over-allocation", mk(), "%s allocated %d octets for an input of %d octets (bound %d): a length field is trusted before it is checked (%s)", target, delta, len(data), limit, note)
	}
	if mustFail && ok {
		return vk.Violf(target+"/truncated-input-accepted", mk(), "%s reported success although the input (%d octets) ends before the mandatory part is complete (%s)", target, len(data), note)
	}
	return nil
}

func clip(b []byte) []byte {
	if len(b) > 48 {
		return b[:48]
	}
	return b
}

var reg = vk.Registry{"probe": func(raw json.RawMessage) *vk.Violation {
	var c Case
	_ = json.Unmarshal(raw, &c)
	return Probe(c.Target, vk.UnHex(c.Data), c.MustFail, c.Note)
}}

func TestReplay(t *testing.T) { vk.RunReplay(t, reg) }

func probe(t vk.TB, target string, data []byte, mustFail bool, note string, nontrivial bool) {
	rec.Eval()
	if nontrivial {
		rec.NonTrivial(target, data)
	}
	rec.Report(t, "probe", Probe(target, data, mustFail, note))
}

func tailParsers(b *gen.Binding) []string {
	for _, f := range b.Spec.Fields {
		if f.Kind == ref.TLVTail {
			return []string{"smpp.ReadTLVs", "smpp.ReadTLVs1"}
		}
		if f.Kind == ref.OptTail {
			return []string{"smgp.ParseOptions", "smgp.ReadOptions"}
		}
	}
	return nil
}

var hostile8 = []byte{0, 1, 0x7f, 0x80, 0xff}
var hostile32 = []uint32{0, 1, 0x7f, 0x80, 0xff, 0xffff, 0x10000, 0x7fffffff, 0x80000000, 0xfffffff0, 0xffffffff}

// TestStructured: a valid image of every type, then every truncation point,
// every substitution of a length/count field by the hostile constants,
// trailing garbage of every length 1..16, well-formed / truncated / oversized
// optional tails, and a splice of two images.
func TestStructured(t *testing.T) {
	rec.RunProbes(t, reg)
	rec.RunRegress(t, reg)
	for _, b := range gen.Bindings {
		b := b
		t.Run(b.Spec.ID(), rapid.MakeCheck(func(t *rapid.T) {
			s := b.Spec
			v := gen.DrawVals(t, b, gen.Opts{})
			if s.Hdr != ref.HdrNone {
				v.Cmd = gen.SpecCmd(b, v)
			}
			img := ref.Encode(s, v)
			_, info, err := ref.Decode(s, img)
			if err != nil {
				t.Fatalf("HARNESS: reference image does not parse: %v", err)
			}
			self := "IDecode:" + s.ID()
			disp := ""
			if s.Hdr != ref.HdrNone {
				disp = "Dispatch:" + s.Proto
			}
			targets := []string{self}
			if disp != "" {
				targets = append(targets, disp)
			}
			rec.Class("type:" + s.ID())
			rec.Sample(s.Proto, map[string]any{"target": self, "image": vk.Hex(clip(img)), "octets": len(img)})
			// the valid image itself
			for _, tg := range targets {
				probe(t, tg, img, false, "valid image", true)
			}
			// every truncation point: below the mandatory end decoding must fail
			for k := 0; k <= len(img); k++ {
				must := k < info.MandatoryEnd
				probe(t, self, img[:k], must, fmt.Sprintf("valid image cut at %d of %d (mandatory part ends at %d)", k, len(img), info.MandatoryEnd), k >= s.HeaderLen())
				if disp != "" && k >= s.HeaderLen() {
					probe(t, disp, img[:k], must, fmt.Sprintf("valid image cut at %d of %d via dispatcher", k, len(img)), true)
				}
			}
			rec.Class("truncations")
			// a sender that lies consistently: the image is cut AND its length word says so - or says one or two
			// octets more or less (the value another protocol version's layout would have). Below the mandatory
			// end decoding must still fail: the length word is part of the untrusted input.
			if s.Hdr != ref.HdrNone {
				lo := len(img) - 24
				if lo < s.HeaderLen() {
					lo = s.HeaderLen()
				}
				for k := lo; k < len(img); k++ {
					for _, d := range []int{0, 1, 2, 3, 4, -1} {
						m := append([]byte{}, img[:k]...)
						binary.BigEndian.PutUint32(m, uint32(k+d))
						must := k < info.MandatoryEnd
						note := fmt.Sprintf("valid image cut at %d of %d, length word := %d (mandatory part ends at %d)", k, len(img), k+d, info.MandatoryEnd)
						probe(t, self, m, must, note, true)
						probe(t, disp, m, must, note+" via dispatcher", true)
					}
				}
				rec.Class("truncations_with_adjusted_length_word")
			}
			// length / count fields overwritten by hostile constants
			for _, f := range s.Fields {
				o := info.Offsets[f.Name]
				switch f.Kind {
				case ref.Count8, ref.Len8:
					for _, h := range hostile8 {
						m := append([]byte{}, img...)
						m[o] = h
						for _, tg := range targets {
							probe(t, tg, m, false, fmt.Sprintf("%s := %#x", f.Name, h), true)
						}
					}
					rec.Class("length_field_substitutions")
				case ref.Len32:
					for _, h := range hostile32 {
						m := append([]byte{}, img...)
						binary.BigEndian.PutUint32(m[o:], h)
						for _, tg := range targets {
							probe(t, tg, m, false, fmt.Sprintf("%s := %#x", f.Name, h), true)
						}
					}
					rec.Class("length32_field_substitutions")
				}
			}
			// a 32-bit body length together with a consistent-looking header length word (both unverified)
			for _, f := range s.Fields {
				if f.Kind == ref.Len32 && s.Hdr != ref.HdrNone {
					for _, h := range []uint32{1 << 16, 1 << 20, 48 << 20, 1 << 30, 0x7fffff00, 0xffffff00} {
						m := append([]byte{}, img...)
						binary.BigEndian.PutUint32(m[info.Offsets[f.Name]:], h)
						binary.BigEndian.PutUint32(m, h+uint32(len(img))-uint32(len(v.B(f.Ref))))
						for _, tg := range targets {
							probe(t, tg, m, false, fmt.Sprintf("%s := %#x with matching header length", f.Name, h), true)
						}
					}
				}
			}
			// the length word of the header
			if s.Hdr != ref.HdrNone {
				for _, h := range hostile32 {
					m := append([]byte{}, img...)
					binary.BigEndian.PutUint32(m, h)
					for _, tg := range targets {
						probe(t, tg, m, false, fmt.Sprintf("header length := %#x", h), true)
					}
				}
			}
			// trailing garbage of every length 1..16
			garbage := rapid.SliceOfN(rapid.Byte(), 16, 16).Draw(t, "garbage")
			for n := 1; n <= 16; n++ {
				m := append(append([]byte{}, img...), garbage[:n]...)
				for _, tg := range targets {
					probe(t, tg, m, false, fmt.Sprintf("%d trailing octets", n), true)
				}
			}
			rec.Class("trailing_garbage")
			// optional tails: well-formed, truncated, oversized
			if tp := tailParsers(b); tp != nil {
				ts := gen.DrawTriplets(t, gen.Opts{}, "tail")
				tail := ref.EncodeTriplets(ts)
				over := append(append([]byte{}, tail...), 0x12, 0x34, 0xff, 0xff, 1, 2, 3) // length 65535, 3 octets present
				var cutTail []byte
				if len(tail) > 0 {
					cutTail = tail[:rapid.IntRange(0, len(tail)-1).Draw(t, "tailcut")]
				}
				variants := [][]byte{tail, cutTail, over, {0, 1}, {0, 1, 0}, {0, 1, 0, 0}, {0xff, 0xff, 0xff, 0xff}}
				// a triplet header whose 16-bit length sits at the arithmetic edges (4+length wraps in 16 bits from
				// 0xfffc on), with nothing / a few octets / the full value behind it, alone and after a valid triplet
				for _, l16 := range []uint16{0x7fff, 0x8000, 0xfff0, 0xfffa, 0xfffb, 0xfffc, 0xfffd, 0xfffe, 0xffff} {
					h := []byte{0x02, 0x10, byte(l16 >> 8), byte(l16)}
					variants = append(variants, h, append(append([]byte{}, h...), 1, 2, 3), append(append([]byte{0, 5, 0, 1, 9}, h...), 7))
					if l16 >= 0xfffb && rapid.IntRange(0, 3).Draw(t, "fullvalue") == 0 {
						variants = append(variants, append(append([]byte{}, h...), make([]byte, int(l16))...))
					}
				}
				// every tag the specifications (and the library) name, with values that are empty strings in their
				// various spellings: a lone NUL, NULs only, NUL-terminated, NUL first
				tg := append([]uint16{0x1401, 0x1402}, gen.NamedTags...)
				tag := tg[rapid.IntRange(0, len(tg)-1).Draw(t, "nultag")]
				for _, val := range [][]byte{{0}, {0, 0}, {0, 0, 0, 0}, {'A', 0}, {0, 'A'}, {}} {
					variants = append(variants, ref.EncodeTriplets([]ref.Triplet{{Tag: tag, Val: val}}), ref.EncodeTriplets([]ref.Triplet{{Tag: 5, Val: []byte{1}}, {Tag: tag, Val: val}}))
				}
				for ti, tl := range variants {
					m := append(append([]byte{}, img[:info.MandatoryEnd]...), tl...)
					for _, tg := range targets {
						probe(t, tg, m, false, fmt.Sprintf("tail variant %d", ti), true)
					}
					for _, tg := range tp {
						probe(t, tg, tl, false, fmt.Sprintf("tail variant %d alone", ti), len(tl) > 0)
					}
				}
				rec.Class("optional_tails")
			}
			// splice with a second image of the same type
			v2 := gen.DrawVals(t, b, gen.Opts{})
			img2 := ref.Encode(s, v2)
			cut1, cut2 := rapid.IntRange(0, len(img)).Draw(t, "splice1"), rapid.IntRange(0, len(img2)).Draw(t, "splice2")
			m := append(append([]byte{}, img[:cut1]...), img2[cut2:]...)
			for _, tg := range targets {
				probe(t, tg, m, false, "splice of two images", true)
			}
			// a receive loop that reuses one PDU value: this image, then another image of the same type (other counts
			// and lengths), then this one again, all decoded into the same value - none of the calls may panic or hang
			recv := b.New()
			for k, im := range [][]byte{img, img2, img, img2[:cut2], img} {
				im := im
				if pn := vk.Guarded("probe", self+"/reused-receiver/hang", func() any { return Case{Target: self, Data: vk.Hex(im), Note: "decoded into a value that had decoded other images before"} }, func() { _ = recv.IDecode(append([]byte{}, im...)) }); pn != "" {
					rec.Report(t, "probe", vk.Violf(self+"/panic-on-reused-receiver", Case{Target: self, Data: vk.Hex(im), Note: fmt.Sprintf("decode number %d into one value; the earlier images were other images of the same type", k+1)}, "%s: decoding into a PDU value that had decoded other images before panicked\n%s", s.ID(), pn))
					break
				}
			}
			rec.Class("receiver_reused")
		}))
	}
}

// TestUnstructured: random octets (0..64 KiB, biased small) behind a valid
// header for PDU targets, raw for the auxiliary parsers; every target.
func TestUnstructured(t *testing.T) {
	rapid.Check(t, func(t *rapid.T) {
		ti := rapid.IntRange(0, len(Targets)-1).Draw(t, "target")
		name := Targets[ti].Name
		var n int
		switch rapid.IntRange(0, 19).Draw(t, "sizeclass") {
		case 0:
			n = rapid.IntRange(0, 65536).Draw(t, "big")
		case 1:
			n = rapid.IntRange(0, 4096).Draw(t, "mid")
		default:
			n = rapid.IntRange(0, 200).Draw(t, "small")
		}
		var body []byte
		if n <= 200 {
			body = rapid.SliceOfN(rapid.OneOf(rapid.Byte(), rapid.SampledFrom([]byte{0, 0xff, 0x1b, 0x0d, 0x80, 0xd8, 0x81, 0x30})), n, n).Draw(t, "body")
		} else {
			body = gen.BodyBytes(t, n, "bodybig")
		}
		data := body
		if strings.HasPrefix(name, "IDecode:") || strings.HasPrefix(name, "Dispatch:") {
			// a plausible header in front, so that field parsing is reached
			var b *gen.Binding
			if strings.HasPrefix(name, "IDecode:") {
				b = gen.ByID(strings.TrimPrefix(name, "IDecode:"))
			} else {
				proto := strings.TrimPrefix(name, "Dispatch:")
				var cands []*gen.Binding
				for _, x := range gen.PDUs() {
					if x.Spec.Proto == proto {
						cands = append(cands, x)
					}
				}
				b = cands[rapid.IntRange(0, len(cands)-1).Draw(t, "disptype")]
			}
			if b.Spec.Hdr != ref.HdrNone && rapid.IntRange(0, 9).Draw(t, "rawheader") != 0 {
				h := make([]byte, b.Spec.HeaderLen())
				binary.BigEndian.PutUint32(h, uint32(len(h)+len(body)))
				binary.BigEndian.PutUint32(h[4:], b.Spec.Cmd)
				data = append(h, body...)
			}
		}
		rec.Class("unstructured:" + strings.SplitN(name, ":", 2)[0])
		if len(data) <= 64 {
			rec.Sample("unstructured", Case{Target: name, Data: vk.Hex(data)})
		}
		probe(t, name, data, false, "unstructured", len(data) >= 12)
	})
}

// TestTextParsers: key tokens of the receipt formats in every truncation,
// concatenation-header near-misses, empty inputs.
func TestTextParsers(t *testing.T) {
	if rec.Env().Shard != 0 {
		return
	}
	tokens := []string{"id:", "sub:", "Sub:", "dlvrd:", "Dlvrd:", "submit date:", "Submit_Date:", "done date:", "Done_Date:", "stat:", "Stat:", "err:", "Err:", "text:", "Text:"}
	var inputs []string
	for _, tok := range tokens {
		for k := 0; k <= len(tok); k++ {
			inputs = append(inputs, tok[:k], tok[:k]+" ", " "+tok[:k], tok[:k]+"x", "id:12345 "+tok[:k])
			if k > 0 {
				inputs = append(inputs, tok[:k-1]) // without the colon
			}
		}
	}
	full := "id:0123456789 sub:001 dlvrd:001 submit date:2401011200 done date:2401011201 stat:DELIVRD err:000 text:hello"
	for k := 0; k <= len(full); k++ {
		inputs = append(inputs, full[:k], full[k:])
	}
	for _, in := range inputs {
		for _, tg := range []string{"smpp34.ExtractDeliveryReceipt", "smgp30.ExtractDeliveryReceipt", "smgp30.ExtractDeliveryReceipt1", "ParseLongSmsContent", "cmpp.SplitMsgIDString"} {
			probe(t, tg, []byte(in), false, "receipt token truncation", len(in) > 0)
		}
	}
	rec.Class("text_parser_inputs")
	rec.Exhaustive("every truncation of every receipt key token (with/without colon, both spellings) and of a full receipt, through the three receipt parsers and the concatenation-header parser")
	// every dispatcher on every command id around the defined ones (0..0x40 with and without the response
	// bit, every single-bit flip of those) in front of an all-zero body and of a short body
	for tg, hl := range map[string]int{"Dispatch:smpp34": 16, "Dispatch:cmpp20": 12, "Dispatch:cmpp30": 12, "Dispatch:sgip12": 20, "Dispatch:smgp30": 12} {
		ids := map[uint32]bool{}
		for i := uint32(0); i <= 0x40; i++ {
			for _, base := range []uint32{i, i | 0x80000000} {
				ids[base] = true
				for bit := uint(0); bit < 32; bit++ {
					ids[base^(1<<bit)] = true
				}
			}
		}
		for _, x := range []uint32{0x102, 0x103, 0x1000, 0x80001000, 0xffffffff, 0x7fffffff} {
			ids[x] = true
		}
		for id := range ids {
			for _, n := range []int{hl, hl + 1, 700} {
				img := make([]byte, n)
				binary.BigEndian.PutUint32(img, uint32(n))
				binary.BigEndian.PutUint32(img[4:], id)
				probe(t, tg, img, false, fmt.Sprintf("command id %#x, %d octets", id, n), true)
			}
		}
	}
	rec.Exhaustive("every dispatcher on command ids 0..0x40 (with/without response bit) and all their single-bit flips")
	// every target on the empty input and on 1..3 octet inputs of the hostile constants
	for _, tg := range Targets {
		probe(t, tg.Name, nil, false, "empty input", false)
		for _, h := range hostile8 {
			for n := 1; n <= 3; n++ {
				in := make([]byte, n)
				for i := range in {
					in[i] = h
				}
				probe(t, tg.Name, in, false, "tiny input", false)
			}
		}
	}
}

// FuzzDecodeAny is the coverage-guided tier (thorough only; Go's native fuzzer
// cannot be seeded, the saved crasher is the reproducible unit). The selector
// picks the target; the corpus is seeded with one valid image per PDU type and
// with the hostile constants.
func FuzzDecodeAny(f *testing.F) {
	if os.Getenv("VERIF_FUZZ") == "" && rec.Env().Shard != 0 {
		f.Skip("the seed corpus is replayed by shard 0 only")
	}
	for i, b := range gen.Bindings {
		v := gen.SeedVals(b, uint64(i)*31+7, 2, 5)
		if b.Spec.Hdr != ref.HdrNone {
			v.Cmd = b.Spec.Cmd
		}
		img := ref.Encode(b.Spec, v)
		f.Add(uint16(targetIndex["IDecode:"+b.Spec.ID()]), img)
		if b.Spec.Hdr != ref.HdrNone {
			f.Add(uint16(targetIndex["Dispatch:"+b.Spec.Proto]), img)
		}
	}
	for i := range Targets {
		f.Add(uint16(i), []byte{})
		f.Add(uint16(i), []byte{0, 0, 0, 2})
		f.Add(uint16(i), []byte{0xff, 0xff, 0xff, 0xf0, 0, 0, 0, 4, 0, 0, 0, 1, 0xff, 0xff, 0xff, 0xff, 0x7f, 0xff, 0xff, 0xff})
		f.Add(uint16(i), []byte("id:0123456789 Sub:001 dlvrd:001 Submit_Date:2401011200 done date:2401011201 stat:DELIVRD err:000 Text:hi"))
		f.Add(uint16(i), []byte{5, 0, 3, 1, 2, 1, 0x1b})
		f.Add(uint16(i), []byte{0, 1, 0xff, 0xff, 1, 2, 3})
	}
	f.Fuzz(func(t *testing.T, sel uint16, data []byte) {
		if len(data) > 1<<16 {
			return
		}
		tg := Targets[int(sel)%len(Targets)]
		if v := Probe(tg.Name, data, false, "native fuzz"); v != nil {
			if vk.IsKnown("C03", v.Key) {
				return
			}
			path := rec.WriteReplay("probe", v)
			t.Fatalf("VIOLATION-CASE property=C03 kind=probe key=%q replay=%s\n%s", v.Key, path, v.Msg)
		}
	})
}

// TestReceiptsHostile: delivery receipts in the standard key:value shape (any key order and subset, both
// SMGP spellings, upper/lower case keys) whose values, prefix and suffix hold arbitrary octets: invalid
// UTF-8, multi-octet runes whose case mapping changes their length, NULs, key tokens inside values,
// values cut at any octet. Through the three receipt parsers.
func TestReceiptsHostile(t *testing.T) {
	keys := []string{"id:", "sub:", "Sub:", "dlvrd:", "Dlvrd:", "submit date:", "Submit_Date:", "done date:", "Done_Date:", "stat:", "Stat:", "err:", "Err:", "text:", "Text:", "ID:", "STAT:", "Id:"}
	odd := [][]byte{{0xff}, {0x80}, {0xe9, 0xe8}, {0xc3}, []byte("\u212a"), []byte("\u0130"), []byte("\u023a"), []byte("\u1e9e"), {0xed, 0xa0, 0x80}, {0xf4, 0x90, 0x80, 0x80}, {0}, []byte("\u00e9"), []byte("\u4e2d")}
	rapid.Check(t, func(t *rapid.T) {
		var b []byte
		chunk := func(label string) []byte {
			n := rapid.IntRange(0, 6).Draw(t, label+"n")
			var out []byte
			for i := 0; i < n; i++ {
				switch rapid.IntRange(0, 3).Draw(t, label+"k") {
				case 0:
					out = append(out, odd[rapid.IntRange(0, len(odd)-1).Draw(t, label+"o")]...)
				case 1:
					out = append(out, rapid.Byte().Draw(t, label+"b"))
				default:
					out = append(out, byte(rapid.IntRange(0x21, 0x7e).Draw(t, label+"a")))
				}
			}
			return out
		}
		b = append(b, chunk("prefix")...)
		nk := rapid.IntRange(0, 9).Draw(t, "nkeys")
		for i := 0; i < nk; i++ {
			if len(b) > 0 {
				b = append(b, ' ')
			}
			b = append(b, keys[rapid.IntRange(0, len(keys)-1).Draw(t, "key")]...)
			b = append(b, chunk("val")...)
			if rapid.IntRange(0, 5).Draw(t, "keyinside") == 0 {
				b = append(b, keys[rapid.IntRange(0, len(keys)-1).Draw(t, "key2")]...)
			}
		}
		b = append(b, chunk("suffix")...)
		if rapid.IntRange(0, 3).Draw(t, "truncate") == 0 && len(b) > 0 {
			b = b[:rapid.IntRange(0, len(b)).Draw(t, "cut")]
		}
		rec.Class("hostile_receipts")
		if len(b) <= 60 {
			rec.Sample("receipt", Case{Target: "smpp34.ExtractDeliveryReceipt", Data: vk.Hex(b)})
		}
		for _, tg := range []string{"smpp34.ExtractDeliveryReceipt", "smgp30.ExtractDeliveryReceipt", "smgp30.ExtractDeliveryReceipt1"} {
			probe(t, tg, b, false, "hostile receipt", nk > 0)
		}
	})
}

// TestUDHStrings: every string of 0..6 octets over the octets that carry meaning in a user-data header
// (lengths and information-element identifiers 0..8, 0x24, 0x25, 0xff) through the concatenation-header
// parser: every short header, every composite header, every header ending exactly at the end of the content.
func TestUDHStrings(t *testing.T) {
	env := rec.Env()
	alpha := []byte{0, 1, 2, 3, 4, 5, 6, 7, 8, 0x24, 0x25, 0xff}
	idx := 0
	for l := 0; l <= 6; l++ {
		cnt := 1
		for i := 0; i < l; i++ {
			cnt *= len(alpha)
		}
		for x := 0; x < cnt; x++ {
			idx++
			if !env.Mine(idx) {
				continue
			}
			in := make([]byte, l)
			y := x
			for i := 0; i < l; i++ {
				in[i] = alpha[y%len(alpha)]
				y /= len(alpha)
			}
			probe(t, "ParseLongSmsContent", in, false, "user-data-header octets", l >= 3)
		}
	}
	rec.Exhaustive("every string of 0..6 octets over {0..8, 0x24, 0x25, 0xff} through ParseLongSmsContent")
}
