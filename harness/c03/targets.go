// Package c03: decoding untrusted bytes never panics, hangs or over-allocates.
package c03

import (
	"context"
	"runtime/metrics"
	"sort"

	sms "github.com/hujm2023/go-sms-protocol"
	"github.com/hujm2023/go-sms-protocol/cmpp"
	"github.com/hujm2023/go-sms-protocol/cmpp/cmpp20"
	"github.com/hujm2023/go-sms-protocol/cmpp/cmpp30"
	"github.com/hujm2023/go-sms-protocol/codec"
	dc "github.com/hujm2023/go-sms-protocol/datacoding"
	g "github.com/hujm2023/go-sms-protocol/datacoding/gsm7encoding"
	"github.com/hujm2023/go-sms-protocol/packet"
	"github.com/hujm2023/go-sms-protocol/sgip"
	"github.com/hujm2023/go-sms-protocol/sgip/sgip12"
	"github.com/hujm2023/go-sms-protocol/smgp"
	"github.com/hujm2023/go-sms-protocol/smgp/smgp30"
	"github.com/hujm2023/go-sms-protocol/smpp"
	"github.com/hujm2023/go-sms-protocol/smpp/smpp34"
	"golang.org/x/text/transform"

	"verifharness/gen"
)

// Target is one entry point that takes untrusted bytes. f returns whether the
// call reported success (used by the truncation clause).
type Target struct {
	Name string
	F    func(data []byte) (ok bool)
}

var Targets []Target
var targetIndex = map[string]int{}

func add(name string, f func([]byte) bool) {
	targetIndex[name] = len(Targets)
	Targets = append(Targets, Target{name, f})
}

// model connection for the frame extractors (no-panic clause only)
type memConn struct{ buf []byte }

func (c *memConn) Read(p []byte) (int, error) {
	if len(c.buf) == 0 {
		return 0, errEOF
	}
	n := copy(p, c.buf)
	c.buf = c.buf[n:]
	return n, nil
}
func (c *memConn) Peek(n int) ([]byte, error) {
	if n <= len(c.buf) {
		return c.buf[:n], nil
	}
	return c.buf, errEOF
}
func (c *memConn) Discard(n int) (int, error) {
	if n > len(c.buf) {
		n = len(c.buf)
	}
	c.buf = c.buf[n:]
	return n, nil
}
func (c *memConn) Size() int { return len(c.buf) }

type eofErr struct{}

func (eofErr) Error() string { return "EOF" }

var errEOF = eofErr{}

func init() {
	for _, b := range gen.Bindings {
		b := b
		add("IDecode:"+b.Spec.ID(), func(d []byte) bool { return b.New().IDecode(d) == nil })
	}
	add("Dispatch:smpp34", func(d []byte) bool { _, e := smpp34.DecodeSMPP34(d); return e == nil })
	add("Dispatch:cmpp20", func(d []byte) bool { _, e := cmpp20.DecodeCMPP20(d); return e == nil })
	add("Dispatch:cmpp30", func(d []byte) bool { _, e := cmpp30.DecodeCMPP30(d); return e == nil })
	add("Dispatch:sgip12", func(d []byte) bool { _, e := sgip12.DecodeSGIP12(d); return e == nil })
	add("Dispatch:smgp30", func(d []byte) bool { _, e := smgp30.DecodeSMGP30(d); return e == nil })
	add("cmpp.PeekHeader", func(d []byte) bool { _, e := cmpp.PeekHeader(d); return e == nil })
	add("cmpp.NewHeaderFromBytes", func(d []byte) bool { _, e := cmpp.NewHeaderFromBytes(d); return e == nil })
	add("cmpp.ReadHeader", func(d []byte) bool { r := packet.NewPacketReader(d); _ = cmpp.ReadHeader(r); return r.Error() == nil })
	add("smgp.PeekHeader", func(d []byte) bool { _, e := smgp.PeekHeader(d); return e == nil })
	add("smgp.NewHeaderFromBytes", func(d []byte) bool { _, e := smgp.NewHeaderFromBytes(d); return e == nil })
	add("smgp.ReadHeader", func(d []byte) bool { r := packet.NewPacketReader(d); _ = smgp.ReadHeader(r); return r.Error() == nil })
	add("sgip.PeekHeader", func(d []byte) bool { _, e := sgip.PeekHeader(d); return e == nil })
	add("sgip.ReadHeader", func(d []byte) bool { r := packet.NewPacketReader(d); _ = sgip.ReadHeader(r); return r.Error() == nil })
	add("smpp.PeekHeader", func(d []byte) bool { _, e := smpp.PeekHeader(d); return e == nil })
	add("smpp.ReadHeader", func(d []byte) bool { r := packet.NewPacketReader(d); _ = smpp.ReadHeader(r); return r.Error() == nil })
	add("smpp.ReadTLVs", func(d []byte) bool { _, e := smpp.ReadTLVs(packet.NewPacketReader(d)); return e == nil })
	add("smpp.ReadTLVs1", func(d []byte) bool { return smpp.ReadTLVs1(packet.NewPacketReader(d)) != nil })
	add("smgp.ParseOptions", func(d []byte) bool { _, e := smgp.ParseOptions(d); return e == nil })
	add("smgp.ReadOptions", func(d []byte) bool { return smgp.ReadOptions(packet.NewPacketReader(d)) != nil })
	add("ParseLongSmsContent", func(d []byte) bool { _, _, _, _, ok := sms.ParseLongSmsContent(string(d)); return ok })
	add("smpp34.ExtractDeliveryReceipt", func(d []byte) bool { _, e := smpp34.ExtractDeliveryReceipt(string(d)); return e == nil })
	add("smgp30.ExtractDeliveryReceipt", func(d []byte) bool { _, e := smgp30.ExtractDeliveryReceipt(string(d)); return e == nil })
	add("smgp30.ExtractDeliveryReceipt1", func(d []byte) bool { _, e := smgp30.ExtractDeliveryReceipt1(string(d)); return e == nil })
	add("DecodeCMPPCContent", func(d []byte) bool {
		if len(d) == 0 {
			return false
		}
		_, e := sms.DecodeCMPPCContent(context.Background(), string(d[1:]), d[0])
		return e == nil
	})
	add("DecodeSMPPCContent", func(d []byte) bool {
		if len(d) == 0 {
			return false
		}
		_, e := sms.DecodeSMPPCContent(context.Background(), string(d[1:]), int(d[0])-1)
		return e == nil
	})
	add("datacoding.Ascii.Decode", func(d []byte) bool { _, e := dc.Ascii(string(d)).Decode(); return e == nil })
	add("datacoding.Latin1.Decode", func(d []byte) bool { _, e := dc.Latin1(d).Decode(); return e == nil })
	add("datacoding.UCS2.Decode", func(d []byte) bool { _, e := dc.UCS2(d).Decode(); return e == nil })
	add("datacoding.GB18030.Decode", func(d []byte) bool { _, e := dc.GB18030(d).Decode(); return e == nil })
	add("datacoding.GSM7Unpacked.Decode", func(d []byte) bool { _, e := dc.GSM7Unpacked(d).Decode(); return e == nil })
	add("datacoding.GSM7Packed.Decode", func(d []byte) bool { _, e := dc.GSM7Packed(d).Decode(); return e == nil })
	add("gsm7encoding.Unpack", func(d []byte) bool { _ = g.Unpack(d); return true })
	add("gsm7encoding.Decode", func(d []byte) bool { _, e := g.Decode(d); return e == nil })
	add("gsm7encoding.ValidateGSM7Buffer", func(d []byte) bool { return len(g.ValidateGSM7Buffer(d)) == 0 })
	add("gsm7.PackedDecoder", func(d []byte) bool { _, _, e := transform.Bytes(g.GSM7(true).NewDecoder(), d); return e == nil })
	add("gsm7.UnpackedDecoder", func(d []byte) bool { _, _, e := transform.Bytes(g.GSM7(false).NewDecoder(), d); return e == nil })
	add("gsm7.PackedEncoder", func(d []byte) bool { _, _, e := transform.Bytes(g.GSM7(true).NewEncoder(), d); return e == nil })
	add("cmpp.SplitMsgIDString", func(d []byte) bool { return cmpp.MsgIDString2Uint64(string(d)) != 0 })
	add("codec.CMPP.Decode", func(d []byte) bool { _, e := codec.NewCMPPCodec().Decode(&memConn{buf: d}); return e == nil })
	add("codec.SMPP.Decode", func(d []byte) bool { _, e := codec.NewSMPPCodec().Decode(&memConn{buf: d}); return e == nil })
	// the blocking extractors allocate what the prefix says before reading (inherent to a blocking framed
	// read); they are driven only with prefixes up to 64 KiB (the explored frame size), which the allocation bound tolerates
	blocked := func(c codec.Codec) func([]byte) bool {
		return func(d []byte) bool {
			if len(d) >= 4 && (d[0] != 0 || d[1] != 0) {
				d = append([]byte{0, 0, d[2], d[3]}, d[4:]...)
			}
			_, e := c.DecodeBlocked(&memConn{buf: d})
			return e == nil
		}
	}
	add("codec.CMPP.DecodeBlocked", blocked(codec.NewCMPPCodec()))
	add("codec.SMPP.DecodeBlocked", blocked(codec.NewSMPPCodec()))
}

func TargetNames() []string {
	var n []string
	for _, t := range Targets {
		n = append(n, t.Name)
	}
	sort.Strings(n)
	return n
}

var allocSample = []metrics.Sample{{Name: "/gc/heap/allocs:bytes"}}

func heapAllocs() uint64 {
	metrics.Read(allocSample)
	return allocSample[0].Value.Uint64()
}
