// evmerge prints the number of distinct 64-bit hashes found in the given
// little-endian hash files (the shard outputs of vk.Recorder).
package main

import (
	"encoding/binary"
	"fmt"
	"os"
	"sort"
)

func main() {
	var all []uint64
	for _, p := range os.Args[1:] {
		b, err := os.ReadFile(p)
		if err != nil {
			continue
		}
		for i := 0; i+8 <= len(b); i += 8 {
			all = append(all, binary.LittleEndian.Uint64(b[i:]))
		}
	}
	sort.Slice(all, func(i, j int) bool { return all[i] < all[j] })
	n := 0
	for i, v := range all {
		if i == 0 || v != all[i-1] {
			n++
		}
	}
	fmt.Println(n)
}
