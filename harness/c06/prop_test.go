// C06 — splitting a long message never loses, duplicates or alters content.
package c06

import (
	"encoding/json"
	"fmt"
	"os"
	"testing"

	"pgregory.net/rapid"

	"verifharness/gen"
	"verifharness/ref"
	"verifharness/splitk"
	"verifharness/vk"
)

var rec = vk.NewRecorder("C06")

func TestMain(m *testing.M) {
	vk.Disturb = gen.Disturb
	code := m.Run()
	rec.Flush("all")
	os.Exit(code)
}

var reg = vk.Registry{"split": func(raw json.RawMessage) *vk.Violation {
	var c splitk.Case
	_ = json.Unmarshal(raw, &c)
	return splitk.Content(c, splitk.Run(c))
}, "batchsplit": func(raw json.RawMessage) *vk.Violation {
	var c splitk.Case
	_ = json.Unmarshal(raw, &c)
	return batchContent(c)
}}

func init() { reg["sequence"] = vk.SequenceReplayer(reg) }

func TestReplay(t *testing.T) { vk.RunReplay(t, reg) }

func eval(t vk.TB, c splitk.Case, constructed bool) {
	r := splitk.Run(c)
	rec.Eval()
	rec.Class(fmt.Sprintf("%s_coding_%d", c.Proto, c.Coding))
	if len(r.Parts) >= 2 {
		if constructed {
			rec.NonTrivialConstructed(1)
		} else {
			rec.NonTrivial(c.Proto, c.Coding, c.Ref, c.Text)
		}
		rec.Class("multi_part")
		if len(r.Parts) > 255 {
			rec.Class("more_than_255_parts")
		}
	}
	if r.Err == nil && r.Actual != c.Coding {
		rec.Class("fallback_taken")
	}
	if a, _ := splitk.Analyse(c, r); a != nil && !a.Single {
		if splitk.StraddleForced(a) {
			rec.Class("boundary_inside_multi_unit_character")
		}
		_, per := a.Kind.Limits()
		if m := len(a.U) % per; m <= 1 || m == per-1 {
			rec.Class("total_within_1_unit_of_k_cap")
		}
	}
	rec.Sample(c.Proto, map[string]any{"proto": c.Proto, "coding": c.Coding, "ref": c.Ref, "text_bytes": len(c.Text) / 2, "parts": len(r.Parts), "reported": r.Actual, "text_head": head(c)})
	first := true
	rec.ReportSeq(t, "split", c, func() *vk.Violation {
		if first {
			first = false
			return splitk.Content(c, r)
		}
		return splitk.Content(c, splitk.Run(c))
	})
	// the batch builder with this coding as its only candidate is the third entry point
	if c.TextString() != "" {
		rec.Eval()
		rec.ReportSeq(t, "batchsplit", c, func() *vk.Violation { return batchContent(c) })
	}
	// the same text and coding number through the OTHER protocol's entry point right afterwards, then this one again
	if len(r.Parts) >= 2 {
		tw := splitk.Twin(c)
		rec.Eval()
		rec.Class("same_text_other_protocol_right_after")
		v := splitk.Content(tw, splitk.Run(tw))
		if v == nil {
			v = splitk.Content(c, splitk.Run(c))
		}
		if v != nil {
			v.Key = "after-same-text-other-protocol/" + v.Key
			v.Case = vk.SeqCase{Kind: "split", First: c, Then: tw}
			rec.Report(t, "sequence", v)
		}
	}
}

func batchContent(c splitk.Case) *vk.Violation {
	r := splitk.RunBatch(c)
	// The batch builder treats a candidate that would need more than 255 parts as unusable and then falls
	// back to UCS-2 (C09's contract): for such a text UCS-2 is a correct answer although the requested
	// coding can represent it. The content clause is then judged under UCS-2.
	if r.Err == nil && r.Actual == 8 && c.Coding != 8 {
		if k, ok := splitk.KindOf(c.Proto, c.Coding); ok {
			if _, starts, err := ref.Units(k, c.TextString()); err == nil {
				single, per := k.Limits()
				if starts[len(starts)-1] > single && ref.GreedyCount(starts, per) > 255 {
					c2 := c
					c2.Coding = 8
					v := splitk.Content(c2, r)
					if v != nil {
						v.Key = "batch:" + v.Key
						v.Case = c
					}
					return v
				}
			}
		}
	}
	v := splitk.Content(c, r)
	if v != nil {
		v.Key = "batch:" + v.Key
	}
	return v
}

func head(c splitk.Case) string {
	s := c.TextString()
	rs := []rune(s)
	if len(rs) > 40 {
		rs = rs[:40]
	}
	return string(rs)
}

func TestGrid(t *testing.T) {
	rec.RunProbes(t, reg)
	rec.RunRegress(t, reg)
	env := rec.Env()
	for i, c := range splitk.GridCases() {
		if env.Mine(i) {
			eval(t, c, true)
		}
	}
	rec.Exhaustive("boundary grid: coding x multi-unit character x k=1..4 x offsets around k*cap x tail length, plus the named witness")
	_ = ref.KUCS2
}

func TestRandom(t *testing.T) {
	max := rec.Env().Pick(3000, 40000)
	rapid.Check(t, func(t *rapid.T) { eval(t, splitk.DrawCase(t, max), false) })
}

// FuzzSplit: the same property driven by Go's coverage-guided fuzzer (thorough tier): the fuzzer's bytes
// are the random source of the case generator, so coverage of the splitter steers which texts are built.
func FuzzSplit(f *testing.F) {
	f.Fuzz(rapid.MakeFuzz(func(t *rapid.T) { eval(t, splitk.DrawCase(t, 4000), false) }))
}
