// C05 — text codings invert on their repertoire and refuse what they cannot represent.
package c05

import (
	"bytes"
	"context"
	"encoding/json"
	"fmt"
	"os"
	"testing"
	"unicode/utf8"

	sms "github.com/hujm2023/go-sms-protocol"
	"github.com/hujm2023/go-sms-protocol/cmpp"
	dc "github.com/hujm2023/go-sms-protocol/datacoding"
	"pgregory.net/rapid"

	"verifharness/gen"
	"verifharness/ref"
	"verifharness/splitk"
	"verifharness/vk"
)

var rec = vk.NewRecorder("C05")

func TestMain(m *testing.M) {
	vk.Disturb = gen.Disturb
	code := m.Run()
	rec.Flush("all")
	os.Exit(code)
}

const (
	cASCII = iota
	cLatin1
	cUCS2
	cGB18030
	cGSMUnpacked
	cGSMPacked
	nCodecs
)

var codecNames = [nCodecs]string{"ASCII", "Latin1", "UCS2", "GB18030", "GSM7Unpacked", "GSM7Packed"}

func codec(k int, b []byte) dc.Codec {
	switch k {
	case cASCII:
		return dc.Ascii(b) // conversion from the caller's buffer, as for the other codecs
	case cLatin1:
		return dc.Latin1(b)
	case cUCS2:
		return dc.UCS2(b)
	case cGB18030:
		return dc.GB18030(b)
	case cGSMUnpacked:
		return dc.GSM7Unpacked(b)
	default:
		return dc.GSM7Packed(b)
	}
}

type Case struct {
	Codec int    `json:"codec"`
	Text  string `json:"text_hex"` // UTF-8, hex
}

// mustAccept: the repertoire floor of each coding (so that "always refuse" cannot pass vacuously).
func mustAccept(k int, s string) bool {
	for _, r := range s {
		switch k {
		case cASCII:
			if r > 0x7F {
				return false
			}
		case cLatin1:
			if !ref.InLatin1Common(r) {
				return false
			}
		case cUCS2, cGB18030:
			if r > 0xFFFF || (r >= 0xD800 && r <= 0xDFFF) || (k == cGB18030 && r >= 0xE000 && r <= 0xE864) || r == 0xFFFD {
				return false
			}
		default:
			if _, ok := ref.GSMRune(r); !ok {
				return false
			}
		}
	}
	return true
}

// mustRefuse: GSM 7-bit accepts exactly the TS 23.038 set; ASCII exactly U+0000..7F.
func mustRefuse(k int, s string) bool {
	for _, r := range s {
		switch k {
		case cASCII:
			if r > 0x7F {
				return true
			}
		case cGSMUnpacked, cGSMPacked:
			if _, ok := ref.GSMRune(r); !ok {
				return true
			}
		}
	}
	return false
}

// check returns (violation, accepted)
func check(c Case) (*vk.Violation, bool) {
	s := string(vk.UnHex(c.Text))
	name := codecNames[c.Codec]
	var enc, dec []byte
	var err, derr error
	in := []byte(s)
	if pn := vk.Guarded("coding", name+"/hang", func() any { return c }, func() { enc, err = codec(c.Codec, in).Encode() }); pn != "" {
		return vk.Violf(name+"/encode-panic", c, "%s.Encode(%q) panicked\n%s", name, s, pn), false
	}
	if err == nil && vk.RetainEnabled {
		// the caller reuses its input buffer at once; the result must be unaffected (and is retained:
		// later calls must not change it either)
		before := append([]byte{}, enc...)
		for i := range in {
			in[i] = 0xA5
		}
		if !bytes.Equal(enc, before) {
			return vk.Violf(name+"/encode-result-aliases-input", c, "%s.Encode(%q): the result changed when the caller overwrote its input buffer", name, s), true
		}
		vk.Retain(name+".Encode", enc)
	}
	if err != nil {
		if mustAccept(c.Codec, s) {
			return vk.Violf(name+"/refuses-own-repertoire", c, "%s.Encode(%q) refused a string inside the coding's repertoire: %v", name, s, err), false
		}
		return nil, false
	}
	if mustRefuse(c.Codec, s) {
		return vk.Violf(name+"/accepts-outside-repertoire", c, "%s.Encode(%q) = %x accepted a character outside the repertoire", name, s, enc), true
	}
	encIn := append([]byte{}, enc...)
	if pn := vk.Guarded("coding", name+"/hang", func() any { return c }, func() { dec, derr = codec(c.Codec, encIn).Decode() }); pn != "" {
		return vk.Violf(name+"/decode-panic", c, "%s.Decode(%x) panicked\n%s", name, enc, pn), true
	}
	if derr == nil && vk.RetainEnabled {
		before := append([]byte{}, dec...)
		for i := range encIn {
			encIn[i] = 0x5A
		}
		if !bytes.Equal(dec, before) {
			return vk.Violf(name+"/decode-result-aliases-input", c, "%s.Decode: the decoded value changed when the caller overwrote its input buffer", name), true
		}
		vk.Retain(name+".Decode", dec)
	}
	if derr == nil && string(dec) == s {
		if vk.RetainEnabled {
			// the caller is done with the bytes it was given (it recycles the buffer) and encodes the SAME text
			// again at once - the next message to the next recipient: it must get the same bytes, not its old buffer
			saved := append([]byte{}, enc...)
			vk.Overwrite(enc)
			enc2, err2 := codec(c.Codec, []byte(s)).Encode()
			if err2 != nil || !bytes.Equal(enc2, saved) {
				return vk.Violf(name+"/second-encode-of-the-same-text-differs", c, "%s.Encode(%q) a second time, after the caller had overwritten the first result, returned %x, %v instead of %x: a result that was handed out is kept and served again", name, s, clipb(enc2), err2, clipb(saved)), true
			}
		}
		return nil, true
	}
	// carve-outs
	if c.Codec == cGB18030 {
		for _, r := range s {
			if r >= 0xE000 && r <= 0xE864 {
				rec.Class("carved_out_gb18030_private_use")
				return nil, true
			}
		}
	}
	if c.Codec == cGSMPacked && derr == nil {
		if sep, e := ref.GSMEncode(s); e == nil && len(sep) > 0 && len(sep)%8 == 0 {
			n := len(sep)
			if sep[n-1] == 0x0D || (sep[n-1] == 0 && sep[n-2] < 0x40) {
				_, size := utf8.DecodeLastRuneInString(s)
				if string(dec) == s[:len(s)-size] {
					rec.Class("carved_out_gsm7_packed_end_of_message")
					return nil, true
				}
			}
		}
	}
	return vk.Violf(name+"/round-trip", c, "%s: Decode(Encode(%q)) = %q, %v (encoded %x)", name, s, dec, derr, enc), true
}

// ---- protocol level

type ProtoCase struct {
	Proto  string `json:"proto"` // "cmpp" | "smpp"
	Coding int    `json:"coding"`
	Text   string `json:"text_hex"`
}

func checkProto(c ProtoCase) *vk.Violation {
	s := string(vk.UnHex(c.Text))
	ctx := context.Background()
	var encK = -1
	if c.Proto == "cmpp" {
		switch c.Coding {
		case 0:
			encK = cASCII
		case 8, 9:
			encK = cUCS2
		case 15:
			encK = cGB18030
		}
	} else {
		switch c.Coding {
		case 0:
			encK = cGSMUnpacked
		case 1:
			encK = cASCII
		case 3:
			encK = cLatin1
		case 8:
			encK = cUCS2
		}
	}
	if encK < 0 {
		var err error
		var out string
		pn := vk.Guarded("proto", c.Proto+"/hang", func() any { return c }, func() {
			if c.Proto == "cmpp" {
				out, err = sms.DecodeCMPPCContent(ctx, s, uint8(c.Coding))
			} else {
				out, err = sms.DecodeSMPPCContent(ctx, s, c.Coding)
			}
		})
		if pn != "" {
			return vk.Violf(c.Proto+"/decode-panic", c, "panic\n%s", pn)
		}
		if err == nil {
			return vk.Violf(c.Proto+"/unsupported-coding-accepted", c, "%s content decoder accepted unsupported data coding %d (result %q)", c.Proto, c.Coding, out)
		}
		return nil
	}
	// the protocol-level encoder (encode-and-split entry point) for a text that fits one message: whatever
	// coding it reports, the protocol-level decoder for that coding must give the text back
	if v := checkProtoEncoder(c, s); v != nil {
		return v
	}
	enc, err := codec(encK, []byte(s)).Encode()
	if err != nil {
		return nil // not representable: nothing to invert
	}
	if encK == cGB18030 {
		for _, r := range s {
			if r >= 0xE000 && r <= 0xE864 {
				return nil
			}
		}
	}
	var out string
	pn := vk.Guarded("proto", c.Proto+"/hang", func() any { return c }, func() {
		if c.Proto == "cmpp" {
			out, err = sms.DecodeCMPPCContent(ctx, string(enc), uint8(c.Coding))
		} else {
			out, err = sms.DecodeSMPPCContent(ctx, string(enc), c.Coding)
		}
	})
	if pn != "" {
		return vk.Violf(c.Proto+"/decode-panic", c, "panic\n%s", pn)
	}
	if err != nil || out != s {
		return vk.Violf(fmt.Sprintf("%s/coding-%d-not-inverted", c.Proto, c.Coding), c, "%s content decoder for coding %d: got %q, %v; want %q (encoded %x)", c.Proto, c.Coding, out, err, s, enc)
	}
	return nil
}

type HelperCase struct {
	Text string `json:"text_hex"`
}

func checkHelpers(c HelperCase) *vk.Violation {
	s := string(vk.UnHex(c.Text))
	want := ref.UTF16BE(s)
	var a, b2, p string
	var err error
	pn := vk.Guarded("helpers", "Utf8ToUcs2/hang", func() any { return c }, func() {
		a, err = cmpp.Utf8ToUcs2(s)
		b2 = cmpp.Utf8ToUcs2Back(s)
		p = cmpp.Utf8ToUcs2Pooled(s)
	})
	if pn != "" {
		return vk.Violf("Utf8ToUcs2/panic", c, "panic\n%s", pn)
	}
	vk.RetainString("Utf8ToUcs2", a)
	vk.RetainString("Utf8ToUcs2Back", b2)
	vk.RetainString("Utf8ToUcs2Pooled", p)
	if err != nil || !bytes.Equal([]byte(a), want) {
		return vk.Violf("Utf8ToUcs2/value", c, "Utf8ToUcs2(%q) = %x, %v; utf16 BE is %x", s, a, err, want)
	}
	if !bytes.Equal([]byte(b2), want) {
		return vk.Violf("Utf8ToUcs2Back/value", c, "Utf8ToUcs2Back(%q) = %x; utf16 BE is %x", s, b2, want)
	}
	if !bytes.Equal([]byte(p), want) {
		return vk.Violf("Utf8ToUcs2Pooled/value", c, "Utf8ToUcs2Pooled(%q) = %x; utf16 BE is %x", s, p, want)
	}
	return nil
}

var reg = vk.Registry{
	"coding": func(raw json.RawMessage) *vk.Violation {
		var c Case
		_ = json.Unmarshal(raw, &c)
		v, _ := check(c)
		return v
	},
	"proto": func(raw json.RawMessage) *vk.Violation {
		var c ProtoCase
		_ = json.Unmarshal(raw, &c)
		return checkProto(c)
	},
	"helpers": func(raw json.RawMessage) *vk.Violation {
		var c HelperCase
		_ = json.Unmarshal(raw, &c)
		return checkHelpers(c)
	},
}

func init() { reg["sequence"] = vk.SequenceReplayer(reg) }

func TestReplay(t *testing.T) { vk.RunReplay(t, reg) }

// TestScalarsExhaustive: every Unicode scalar value x six codecs x short contexts.
func TestScalarsExhaustive(t *testing.T) {
	rec.RunProbes(t, reg)
	rec.RunRegress(t, reg)
	env := rec.Env()
	contexts := []func(string) string{
		func(c string) string { return c },
		func(c string) string { return "a" + c },
	}
	if env.Thorough() {
		contexts = append(contexts, func(c string) string { return c + "a" }, func(c string) string { return "ab" + c + "cd" })
	}
	lo, hi := env.Range(0x110000)
	vk.RetainEnabled = false
	defer func() { vk.RetainEnabled = true }()
	var accepted, refused [nCodecs]int64
	var n int64
	for r := lo; r < hi; r++ {
		if r >= 0xD800 && r <= 0xDFFF {
			continue
		}
		cs := string(rune(r))
		for ci, ctx := range contexts {
			hexs := vk.Hex([]byte(ctx(cs)))
			for k := 0; k < nCodecs; k++ {
				v, acc := check(Case{k, hexs})
				n++
				if ci == 0 {
					if acc {
						accepted[k]++
					} else {
						refused[k]++
					}
				}
				if v != nil {
					rec.Report(t, "coding", v)
				}
			}
		}
	}
	rec.EvalN(n)
	for k := 0; k < nCodecs; k++ {
		rec.ClassN("scalars_accepted:"+codecNames[k], accepted[k])
		rec.ClassN("scalars_refused:"+codecNames[k], refused[k])
		rec.NonTrivialConstructed(accepted[k] * int64(len(contexts)))
	}
	rec.Exhaustive(fmt.Sprintf("all 1,112,064 Unicode scalar values x 6 codecs x %d contexts", len(contexts)))
	rec.Sample("coding", map[string]any{"codec": "GSM7Packed", "text": "a€"})
}

// repertoire-biased rune pools
var pools = func() [nCodecs][]rune {
	var p [nCodecs][]rune
	for r := rune(0); r < 0x80; r++ {
		p[cASCII] = append(p[cASCII], r)
	}
	p[cASCII] = append(p[cASCII], 0x7F, 0x80, 0xFF, 0x100)
	for r := rune(0x20); r <= 0xFF; r++ {
		p[cLatin1] = append(p[cLatin1], r)
	}
	p[cLatin1] = append(p[cLatin1], 0x100, 0x20AC, 0x2122, 0x81, 0x9F, 0x1F)
	p[cUCS2] = []rune{'a', 0x4E2D, 0x6587, 0xFFFF, 0x10000, 0x1F600, 0x10FFFF, 0xD7FF, 0xE000, 0xFFFD, 0xFEFF, 0xFFFE, 0x0, 0x80}
	p[cGB18030] = []rune{'a', 0x4E2D, 0x6587, 0x20AC, 0x80, 0xFF, 0x3000, 0xE000, 0xE864, 0xE865, 0xFFFF, 0x10000, 0x1F600, 0x2000, 0x9FA5, 0x9FA6}
	for r := rune(0); r < 0x2100; r++ {
		if _, ok := ref.GSMRune(r); ok {
			p[cGSMUnpacked] = append(p[cGSMUnpacked], r)
		}
	}
	p[cGSMUnpacked] = append(p[cGSMUnpacked], '@', '@', '\r', '\r', '[', '€', 0x1B, 0xE7, '`')
	// combining marks (a decomposed accent is NOT the precomposed GSM letter) and singleton canonical
	// equivalents of GSM letters: Ohm, Kelvin, Angstrom signs, Greek question mark
	p[cGSMUnpacked] = append(p[cGSMUnpacked], 0x0301, 0x0300, 0x0308, 0x0303, 0x030A, 0x0327, 0x2126, 0x212A, 0x212B, 0x037E)
	p[cGSMPacked] = p[cGSMUnpacked]
	p[cLatin1] = append(p[cLatin1], 0x0301, 0x0308, 0x212B)
	p[cASCII] = append(p[cASCII], 0x0301, 0x212A)
	p[cUCS2] = append(p[cUCS2], 0x0301, 0x200D, 0xFE0F)
	return p
}()

func drawText(t *rapid.T, k int) string {
	if rapid.IntRange(0, 9).Draw(t, "corpus") == 0 {
		// messages as applications send them (signatures, codes, links, JSON, bracket runs, emoji sequences)
		if rapid.Bool().Draw(t, "corpusshort") {
			return rapid.SampledFrom(splitk.Corpus).Draw(t, "corpusmsg")
		}
		return splitk.CorpusText(t)
	}
	n := rapid.OneOf(rapid.IntRange(0, 24), rapid.IntRange(0, 400), rapid.SampledFrom([]int{7, 8, 9, 15, 16, 17, 159, 160, 161})).Draw(t, "n")
	rs := rapid.SliceOfN(rapid.OneOf(rapid.SampledFrom(pools[k]), rapid.SampledFrom(pools[k]), rapid.SampledFrom(pools[k]), rapid.Rune()), n, n).Draw(t, "runes")
	if rapid.IntRange(0, 7).Draw(t, "decomposed") == 0 {
		// a base letter directly followed by a combining mark that would compose to a letter of the repertoire
		pairs := []string{"e\u0301", "a\u0300", "u\u0308", "n\u0303", "A\u030a", "C\u0327", "o\u0308", "E\u0301"}
		at := rapid.IntRange(0, len(rs)).Draw(t, "decomposedat")
		pr := []rune(pairs[rapid.IntRange(0, len(pairs)-1).Draw(t, "pair")])
		rs = append(rs[:at:at], append(pr, rs[at:]...)...)
	}
	if rapid.IntRange(0, 39).Draw(t, "verylong") == 0 {
		// longer than any internal 4 KiB buffer
		base := rs
		if len(base) == 0 {
			base = []rune("a\u4e2d")
		}
		for len(rs) < 2500 {
			rs = append(rs, base...)
		}
	}
	if rapid.IntRange(0, 29).Draw(t, "sizeclass") == 0 {
		// exactly on, one below and one above the power-of-two sizes of internal buffers (x/text transform
		// works in 4 KiB blocks; 2048 UCS-2 characters are 4096 octets)
		target := rapid.SampledFrom([]int{2047, 2048, 2049, 4095, 4096, 4097, 8191, 8192, 8193}).Draw(t, "target")
		pad := pools[k][rapid.IntRange(0, len(pools[k])-1).Draw(t, "padrune")]
		if len(rs) > target {
			rs = rs[:target]
		}
		at := rapid.IntRange(0, len(rs)).Draw(t, "padat")
		fill := make([]rune, target-len(rs))
		for i := range fill {
			fill[i] = pad
		}
		rs = append(rs[:at:at], append(fill, rs[at:]...)...)
	}
	s := string(rs)
	if !utf8.ValidString(s) {
		return "x"
	}
	// GSM 7-bit: in a quarter of the cases steer the septet count to a multiple of 8
	// (and 7 mod 8) with a drawn final character, so that every end-of-message
	// decision of the packed form is met: final '@' / CR after a septet below or
	// above 0x40, after an escape pair, or an ordinary last character.
	if (k == cGSMUnpacked || k == cGSMPacked) && rapid.IntRange(0, 3).Draw(t, "steer_end") == 0 {
		if sep, err := ref.GSMEncode(s); err == nil {
			want := rapid.SampledFrom([]int{0, 0, 0, 7}).Draw(t, "mod8")
			last := rapid.SampledFrom([]string{"@", "@", "\r", "a", "1", "[", "à", "¡"}).Draw(t, "lastchar")
			prev := rapid.SampledFrom([]string{"1", " ", "?", "a", "G", "à", "¡", "]", "@", "\r"}).Draw(t, "prevchar")
			lsep, _ := ref.GSMEncode(prev + last)
			for (len(sep)+len(lsep))%8 != want {
				s += "x"
				sep = append(sep, 0x78)
			}
			s += prev + last
		}
	}
	return s
}

func stringsProp(t *rapid.T) {
	k := rapid.IntRange(0, nCodecs-1).Draw(t, "codec")
	s := drawText(t, k)
	c := Case{k, vk.Hex([]byte(s))}
	v, acc := check(c)
	rec.Eval()
	if acc && s != "" {
		rec.NonTrivial(k, s)
		rec.Class("random_accepted:" + codecNames[k])
	} else {
		rec.Class("random_refused:" + codecNames[k])
	}
	rec.Sample("coding-"+codecNames[k], map[string]any{"codec": codecNames[k], "text": s})
	first := true
	rec.ReportSeq(t, "coding", c, func() *vk.Violation {
		if first {
			first = false
			return v
		}
		v2, _ := check(c)
		return v2
	})
}

func TestStringsRandom(t *testing.T) {
	rapid.Check(t, stringsProp)
}

// FuzzStrings: the codec round-trip property driven by the coverage-guided fuzzer (thorough tier).
func FuzzStrings(f *testing.F) { f.Fuzz(rapid.MakeFuzz(stringsProp)) }

func TestProtocolLevel(t *testing.T) {
	rapid.Check(t, func(t *rapid.T) {
		proto := rapid.SampledFrom([]string{"cmpp", "smpp"}).Draw(t, "proto")
		var coding int
		if proto == "cmpp" {
			coding = rapid.OneOf(rapid.SampledFrom([]int{0, 8, 9, 15}), rapid.IntRange(0, 255)).Draw(t, "coding")
		} else {
			coding = rapid.OneOf(rapid.SampledFrom([]int{0, 1, 3, 8}), rapid.IntRange(-1, 300)).Draw(t, "coding")
		}
		k := rapid.IntRange(0, nCodecs-1).Draw(t, "pool")
		s := drawText(t, k)
		c := ProtoCase{proto, coding, vk.Hex([]byte(s))}
		rec.Eval()
		rec.NonTrivial(proto, coding, s)
		rec.Class(fmt.Sprintf("proto:%s", proto))
		rec.Sample("proto", map[string]any{"proto": proto, "coding": coding, "text": s})
		rec.ReportSeq(t, "proto", c, func() *vk.Violation { return checkProto(c) })
	})
	// every coding number once with a fixed text (exhaustive over the numbers)
	if rec.Env().Shard == 0 {
		for n := 0; n < 256; n++ {
			rec.Eval()
			rec.Report(t, "proto", checkProto(ProtoCase{"cmpp", n, vk.Hex([]byte("Hello"))}))
		}
		for n := -1; n <= 300; n++ {
			rec.Eval()
			rec.Report(t, "proto", checkProto(ProtoCase{"smpp", n, vk.Hex([]byte("Hello"))}))
		}
		rec.Exhaustive("all 256 CMPP coding numbers and SMPP numbers -1..300 with a fixed text")
		// the selectors GetCMPPCodec / GetSMPPCodec ("when there is an unsupported coding, UCS2 is used as the
		// default"): never nil; a supported number selects the codec NewXCodec selects, any other number UCS-2
		for _, text := range []string{"Hello", "中文 and ascii"} {
			want16 := ref.UTF16BE(text)
			for n := -1; n <= 300; n++ {
				rec.Eval()
				var got, viaNew dc.Codec
				name := ""
				if n >= 0 && n <= 255 {
					got, viaNew, name = dc.GetCMPPCodec(dc.CMPPDataCoding(n), text), dc.NewCMPPCodec(dc.CMPPDataCoding(n), text), "GetCMPPCodec"
					if v := selectorViolation(name, n, text, got, viaNew, want16); v != nil {
						rec.Report(t, "proto", v)
					}
				}
				got, viaNew, name = dc.GetSMPPCodec(dc.SMPPDataCoding(n), text), dc.NewSMPPCodec(dc.SMPPDataCoding(n), text), "GetSMPPCodec"
				if v := selectorViolation(name, n, text, got, viaNew, want16); v != nil {
					rec.Report(t, "proto", v)
				}
			}
		}
		rec.Exhaustive("GetCMPPCodec / GetSMPPCodec for every coding number -1..300")
	}
}

func TestUcs2Helpers(t *testing.T) {
	rapid.Check(t, func(t *rapid.T) {
		s := drawText(t, cUCS2+rapid.IntRange(0, 1).Draw(t, "pool"))
		rec.Eval()
		if s != "" {
			rec.NonTrivial("helpers", s)
		}
		rec.Class("ucs2_helpers")
		hc := HelperCase{vk.Hex([]byte(s))}
		rec.ReportSeq(t, "helpers", hc, func() *vk.Violation { return checkHelpers(hc) })
	})
}

func checkProtoEncoder(c ProtoCase, s string) *vk.Violation {
	if s == "" || len(s) > 900 {
		return nil
	}
	for _, r := range s {
		if (r >= 0xE000 && r <= 0xE864) || ref.Latin1Disputed(r) {
			return nil
		}
	}
	ctx := context.Background()
	var parts [][]byte
	var act int
	var err error
	var out string
	pn := vk.Guarded("proto", c.Proto+"/hang", func() any { return c }, func() {
		if c.Proto == "cmpp" {
			var a dc.CMPPDataCoding
			parts, a, err = sms.EncodeCMPPContentAndSplit(ctx, s, dc.CMPPDataCoding(c.Coding), 1)
			act = int(a)
		} else {
			var a dc.SMPPDataCoding
			parts, a, err = sms.EncodeSMPPContentAndSplit(ctx, s, dc.SMPPDataCoding(c.Coding), 1)
			act = int(a)
		}
	})
	if pn != "" {
		return vk.Violf(c.Proto+"/encoder-panic", c, "panic\n%s", pn)
	}
	if i, j, sh := vk.SharedSpare(parts); sh {
		return vk.Violf(c.Proto+"/encoder-parts-share-memory", c, "appending to part %d (writing into its spare capacity) changed part %d of the same result", i+1, j+1)
	}
	if err != nil || len(parts) != 1 || (c.Proto == "smpp" && act == 99) {
		return nil
	}
	if c.Proto == "cmpp" {
		out, err = sms.DecodeCMPPCContent(ctx, string(parts[0]), uint8(act))
	} else {
		out, err = sms.DecodeSMPPCContent(ctx, string(parts[0]), act)
	}
	if err != nil || out != s {
		return vk.Violf(fmt.Sprintf("%s/encoder-coding-%d-not-inverted", c.Proto, act), c, "%s: the protocol-level encoder reported coding %d for %q (requested %d), the protocol-level decoder for that coding returns %q, %v", c.Proto, act, s, c.Coding, out, err)
	}
	return nil
}

// selectorViolation: the Get*Codec selectors never return nil; for a number NewXCodec knows they select
// the same codec (same encoding of the text, same refusal), for every other number UCS-2.
func selectorViolation(name string, n int, text string, got, viaNew dc.Codec, want16 []byte) *vk.Violation {
	c := ProtoCase{name, n, vk.Hex([]byte(text))}
	if got == nil {
		return vk.Violf(name+"/nil-codec", c, "%s(%d, %q) returned a nil codec", name, n, text)
	}
	var ge []byte
	var gerr error
	if pn := vk.Guarded("proto", name+"/hang", func() any { return c }, func() { ge, gerr = got.Encode() }); pn != "" {
		return vk.Violf(name+"/panic", c, "%s(%d).Encode panicked\n%s", name, n, pn)
	}
	if viaNew != nil {
		we, werr := viaNew.Encode()
		if (gerr == nil) != (werr == nil) || (gerr == nil && string(ge) != string(we)) {
			return vk.Violf(name+"/differs-from-New", c, "%s(%d, %q).Encode() = %x, %v; the codec NewXCodec selects for that number gives %x, %v", name, n, text, ge, gerr, we, werr)
		}
		return nil
	}
	if gerr != nil || string(ge) != string(want16) {
		return vk.Violf(name+"/unsupported-number-not-UCS2", c, "%s(%d, %q): the number is not supported, the documented default is UCS-2, but Encode() = %x, %v (UTF-16BE is %x)", name, n, text, ge, gerr, want16)
	}
	return nil
}

func clipb(b []byte) []byte {
	if len(b) > 40 {
		return b[:40]
	}
	return b
}
