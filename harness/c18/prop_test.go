// C18 — delivery-receipt extraction recovers every field regardless of order.
package c18

import (
	"encoding/hex"
	"encoding/json"
	"fmt"
	"os"
	"strings"
	"testing"

	"github.com/hujm2023/go-sms-protocol/smgp/smgp30"
	"github.com/hujm2023/go-sms-protocol/smpp/smpp34"
	"pgregory.net/rapid"

	"verifharness/gen"
	"verifharness/ref"
	"verifharness/vk"
)

var rec = vk.NewRecorder("C18")

func TestMain(m *testing.M) {
	vk.Disturb = gen.Disturb
	code := m.Run()
	rec.Flush("all")
	os.Exit(code)
}

// the eight standard keys, primary and SMGP backup spellings, SMGP field widths
var keys = []struct {
	Name, Primary, Backup string
	Width                 int
}{
	{"ID", "id:", "id:", 10},
	{"Sub", "sub:", "Sub:", 3},
	{"Dlvrd", "dlvrd:", "Dlvrd:", 3},
	{"SubDate", "submit date:", "Submit_Date:", 10},
	{"DoneDate", "done date:", "Done_Date:", 10},
	{"Stat", "stat:", "Stat:", 7},
	{"Err", "err:", "Err:", 3},
	{"Text", "text:", "Text:", 20},
}

// Item is one key:value of a receipt.
type Item struct {
	Key    int    `json:"key"`    // index into keys
	Backup bool   `json:"backup"` // SMGP backup spelling
	Val    string `json:"val"`    // hex
}

type Case struct {
	Variant string `json:"variant"` // "smpp" | "smgp"
	Items   []Item `json:"items"`
}

func (c Case) text() string {
	var parts []string
	for _, it := range c.Items {
		k := keys[it.Key].Primary
		if it.Backup {
			k = keys[it.Key].Backup
		}
		parts = append(parts, k+string(vk.UnHex(it.Val)))
	}
	return strings.Join(parts, " ")
}

func check(c Case) *vk.Violation {
	s := c.text()
	want := map[string]string{}
	for _, it := range c.Items {
		v := string(vk.UnHex(it.Val))
		k := keys[it.Key]
		if c.Variant == "smgp" {
			if k.Name == "ID" {
				v = hex.EncodeToString([]byte(v))
			} else if len(v) > k.Width {
				v = v[:k.Width]
			}
		}
		want[k.Name] = v
	}
	got := map[string]string{}
	pn := vk.Guarded("receipt", c.Variant+"/hang", func() any { return c }, func() {
		if c.Variant == "smpp" {
			d, _ := smpp34.ExtractDeliveryReceipt(s)
			got = map[string]string{"ID": d.ID, "Sub": d.Sub, "Dlvrd": d.Dlvrd, "SubDate": d.SubDate, "DoneDate": d.DoneDate, "Stat": d.Stat, "Err": d.Err, "Text": d.Text}
		} else {
			d, _ := smgp30.ExtractDeliveryReceipt(s)
			got = map[string]string{"ID": d.ID, "Sub": d.Sub, "Dlvrd": d.Dlvrd, "SubDate": d.SubDate, "DoneDate": d.DoneDate, "Stat": d.Stat, "Err": d.Err, "Text": d.Text}
		}
	})
	if pn != "" {
		return vk.Violf(c.Variant+"/panic", c, "%s ExtractDeliveryReceipt(%q) panicked\n%s", c.Variant, s, pn)
	}
	for _, k := range keys {
		if got[k.Name] != want[k.Name] {
			return vk.Violf(c.Variant+"/"+k.Name, c, "%s ExtractDeliveryReceipt(%q): %s = %q, want %q", c.Variant, s, k.Name, got[k.Name], want[k.Name])
		}
	}
	return nil
}

var reg = vk.Registry{
	"receipt": func(raw json.RawMessage) *vk.Violation {
		var c Case
		_ = json.Unmarshal(raw, &c)
		return check(c)
	},
	"roundtrip": func(raw json.RawMessage) *vk.Violation {
		var c gen.PCase
		_ = json.Unmarshal(raw, &c)
		s, v := ref.FromJ(c.Vals)
		return gen.RoundTrip(gen.ByID(s.ID()), v)
	},
}

func init() { reg["sequence"] = vk.SequenceReplayer(reg) }

func TestReplay(t *testing.T) { vk.RunReplay(t, reg) }

// value alphabet: space-free; ':' only directly after a digit, so that no key
// token (all of which end in letter+':') can be spelled - built, not filtered.
const letters = "abcdefghijklmnopqrstuvwxyzABCDEFGHIJKLMNOPQRSTUVWXYZ_-+./#@!$%&*()[]{}<>=?,;'\"\\|~^`"

// words of the key spellings WITHOUT their colon: legal inside values (no key token is spelled)
var bareWords = []string{"done", "submit", "date", "sub", "stat", "text", "err", "dlvrd", "id", "Sub", "Submit_Date", "Done_Date", "Text", "resubmitted", "undone", "idx", "submit_date", "done-date"}

// the values real receipts carry, with and without leading NUL octets (a NUL is a space-free octet like any
// other): values that agree in everything but their length and leading zeros / NULs
var commonValues = []string{"DELIVRD", "ELIVRD", "EXPIRED", "UNDELIV", "001", "000", "01", "1", "0", "00", "2401011200", "401011200"}

var valueGen = rapid.Custom(func(t *rapid.T) string {
	if rapid.IntRange(0, 5).Draw(t, "common") == 0 {
		w := rapid.SampledFrom(commonValues).Draw(t, "commonvalue")
		switch rapid.IntRange(0, 3).Draw(t, "nulprefix") {
		case 0:
			w = "\x00" + w
		case 1:
			w = "\x00\x00" + w
		}
		return vk.Hex([]byte(w))
	}
	if rapid.IntRange(0, 7).Draw(t, "bareword") == 0 {
		w := rapid.SampledFrom(bareWords).Draw(t, "word")
		if rapid.Bool().Draw(t, "suffix") {
			w += string(rune('0' + rapid.IntRange(0, 9).Draw(t, "digit")))
		}
		return vk.Hex([]byte(w))
	}
	// also far beyond every field width, around the 8-bit size boundaries (a width comparison done in a narrow type wraps there)
	n := rapid.OneOf(rapid.IntRange(0, 12), rapid.IntRange(0, 40), rapid.IntRange(0, 12), rapid.SampledFrom([]int{127, 128, 129, 255, 256, 257, 258, 259, 260, 263, 264, 266, 267, 276, 277, 300, 511, 512, 513, 515, 522})).Draw(t, "len")
	b := make([]byte, 0, n)
	for len(b) < n {
		switch rapid.IntRange(0, 9).Draw(t, "cls") {
		case 0, 1, 2, 3:
			b = append(b, byte('0'+rapid.IntRange(0, 9).Draw(t, "d")))
		case 4:
			if len(b) > 0 && b[len(b)-1] >= '0' && b[len(b)-1] <= '9' {
				b = append(b, ':')
			} else {
				b = append(b, '7')
			}
		case 5:
			b = append(b, rapid.SampledFrom([]byte{0x80, 0xa0, 0xe4, 0xff, 0x01, 0x7f, '\t'}).Draw(t, "hi"))
		default:
			b = append(b, letters[rapid.IntRange(0, len(letters)-1).Draw(t, "l")])
		}
	}
	return vk.Hex(b)
})

// SMGP id: ten arbitrary octets (spaces and NULs included) without ':'.
var idGen = rapid.Custom(func(t *rapid.T) string {
	b := rapid.SliceOfN(rapid.OneOf(rapid.Byte(), rapid.SampledFrom([]byte{' ', 0, 'i', 'd', 's', 'u', 'b'})), 10, 10).Draw(t, "id")
	switch rapid.IntRange(0, 7).Draw(t, "idclass") {
	case 0: // ten octets that read as decimal text
		for i := range b {
			b[i] = '0' + b[i]%10
		}
	case 1: // ... as hexadecimal text
		for i := range b {
			b[i] = "0123456789abcdef"[b[i]%16]
		}
	case 2: // BCD-looking
		for i := range b {
			b[i] = (b[i]%10)<<4 | (b[i]>>4)%10
		}
	}
	for i := range b {
		if b[i] == ':' {
			b[i] = ';'
		}
	}
	return vk.Hex(b)
})

func drawCase(t *rapid.T, variant string) Case {
	perm := rapid.Permutation([]int{0, 1, 2, 3, 4, 5, 6, 7}).Draw(t, "order")
	mask := rapid.OneOf(rapid.IntRange(0, 255), rapid.Just(255)).Draw(t, "subset")
	c := Case{Variant: variant}
	for _, k := range perm {
		if mask>>k&1 == 0 {
			continue
		}
		it := Item{Key: k}
		if variant == "smgp" {
			it.Backup = rapid.Bool().Draw(t, fmt.Sprintf("backup%d", k))
			if k == 0 {
				it.Val = idGen.Draw(t, "idval")
				c.Items = append(c.Items, it)
				continue
			}
		}
		it.Val = valueGen.Draw(t, fmt.Sprintf("val%d", k))
		c.Items = append(c.Items, it)
	}
	return c
}

func eval(t vk.TB, c Case) {
	rec.Eval()
	canonical := len(c.Items) == 8
	for i, it := range c.Items {
		if it.Key != i {
			canonical = false
		}
		if it.Backup && it.Key != 0 {
			rec.Class(c.Variant + "_backup_spelling_used")
		}
		if len(it.Val)/2 > keys[it.Key].Width {
			rec.Class(c.Variant + "_value_longer_than_width")
		}
	}
	if !canonical {
		rec.NonTrivial(c.Variant, c.text())
		rec.Class(c.Variant + "_not_canonical_order_or_subset")
	}
	rec.Sample(c.Variant, map[string]any{"text": c.text(), "case": c})
	rec.ReportSeq(t, "receipt", c, func() *vk.Violation { return check(c) })
}

func TestSMPPReceipts(t *testing.T) {
	rec.RunProbes(t, reg)
	rec.RunRegress(t, reg)
	rapid.Check(t, func(t *rapid.T) { eval(t, drawCase(t, "smpp")) })
}

func TestSMGPReceipts(t *testing.T) {
	rapid.Check(t, func(t *rapid.T) { eval(t, drawCase(t, "smgp")) })
}

// TestEnumOrders: all 8! orders of the full key set and all 2^8 subsets in
// canonical order, for the SMPP variant and for SMGP with the primary, the
// backup and a mixed spelling (thorough: all orders; quick: every 16th order).
func TestEnumOrders(t *testing.T) {
	env := rec.Env()
	vals := []string{"0102030405", "001", "002", "2401011200", "2401011201", "DELIVRD", "000", "hello-world"}
	mk := func(variant string, order []int, mask, spelling int) Case {
		c := Case{Variant: variant}
		for _, k := range order {
			if mask>>k&1 == 0 {
				continue
			}
			it := Item{Key: k, Val: vk.Hex([]byte(vals[k]))}
			if variant == "smgp" {
				it.Backup = spelling == 1 || (spelling == 2 && k%2 == 1)
			}
			c.Items = append(c.Items, it)
		}
		return c
	}
	variants := []struct {
		v string
		s int
	}{{"smpp", 0}, {"smgp", 0}, {"smgp", 1}, {"smgp", 2}}
	idx := 0
	stride := env.Pick(16, 1)
	var permute func(a []int, k int)
	permute = func(a []int, k int) {
		if k == len(a) {
			idx++
			if idx%stride != 0 || !env.Mine(idx/stride) {
				return
			}
			for _, vs := range variants {
				c := mk(vs.v, a, 255, vs.s)
				rec.NonTrivialConstructed(1)
				rec.Eval()
				rec.Report(t, "receipt", check(c))
			}
			return
		}
		for i := k; i < len(a); i++ {
			a[k], a[i] = a[i], a[k]
			permute(a, k+1)
			a[k], a[i] = a[i], a[k]
		}
	}
	permute([]int{0, 1, 2, 3, 4, 5, 6, 7}, 0)
	if stride == 1 {
		rec.Exhaustive("all 8! key orders of the full receipt x {smpp, smgp primary, smgp backup, smgp mixed}")
	}
	if env.Shard == 0 {
		for mask := 0; mask < 256; mask++ {
			for _, vs := range variants {
				c := mk(vs.v, []int{0, 1, 2, 3, 4, 5, 6, 7}, mask, vs.s)
				rec.NonTrivialConstructed(1)
				rec.Eval()
				rec.Report(t, "receipt", check(c))
			}
		}
		rec.Exhaustive("all 2^8 key subsets in canonical order x 4 spellings")
	}
}

// TestCMPPStatusReport: the 60-octet CMPP status-report body round-trips.
func TestCMPPStatusReport(t *testing.T) {
	b := gen.ByID("cmpp.SubPduDeliveryContent")
	rapid.Check(t, func(t *rapid.T) {
		v := gen.DrawVals(t, b, gen.Opts{})
		rec.Eval()
		if gen.NonTrivial(b.Spec, v) {
			rec.NonTrivial("cmpp-report", ref.Encode(b.Spec, v))
		}
		rec.Class("cmpp_status_report")
		rec.Sample("cmpp-report", ref.ToJ(b.Spec, v))
		pc := gen.PCase{Vals: ref.ToJ(b.Spec, v)}
		rec.ReportSeq(t, "roundtrip", pc, func() *vk.Violation { return gen.RoundTrip(b, v) })
		// a receiver that is used for report after report: first a report whose text fields are proper prefixes
		// of this one's, then this one - the second decode must give exactly this report
		va := *v
		va.F = map[string]any{}
		for k, x := range v.F {
			va.F[k] = x
		}
		shorter := false
		for _, f := range b.Spec.Fields {
			if f.Kind == ref.FixStr && len(v.B(f.Name)) >= 2 {
				va.F[f.Name] = v.B(f.Name)[:len(v.B(f.Name))-1]
				shorter = true
			}
		}
		if shorter {
			ia, ea := b.Fill(&va).IEncode()
			ib, eb := b.Fill(v).IEncode()
			if ea == nil && eb == nil {
				r := b.New()
				if r.IDecode(ia) == nil && r.IDecode(ib) == nil {
					rec.Eval()
					rec.Class("receiver_reused_for_a_report_that_extends_the_previous_one")
					if d := ref.Diff(b.Spec, v, b.Extract(r)); d != "" {
						rec.Report(t, "roundtrip", vk.Violf("cmpp.SubPduDeliveryContent/second-decode-into-same-receiver", pc, "a receiver that had decoded a report with shorter fields decodes this report wrongly: %s", d))
					}
				}
			}
		}
		if img, err := b.Fill(v).IEncode(); err == nil && len(img) != 60 {
			rec.Report(t, "roundtrip", vk.Violf("cmpp.SubPduDeliveryContent/length", nil, "status report body has %d octets, specification says 60", len(img)))
		}
	})
}

// FuzzReceipts: the receipt property driven by Go's coverage-guided fuzzer (thorough tier).
func FuzzReceipts(f *testing.F) {
	f.Fuzz(rapid.MakeFuzz(func(t *rapid.T) {
		eval(t, drawCase(t, rapid.SampledFrom([]string{"smpp", "smgp"}).Draw(t, "variant")))
	}))
}
