// Package vk is the small kit shared by every property package: it reads the
// run configuration the driver passes in the environment, records evidence
// (evaluations, distinct non-trivial cases, class counters, samples), handles
// known findings, and turns a failed oracle into a replay file.
//
// Nothing in here imports the library under test.
package vk

import (
	"encoding/binary"
	"encoding/json"
	"fmt"
	"hash/adler32"
	"hash/crc32"
	"hash/fnv"
	"os"
	"os/exec"
	"path/filepath"
	"runtime/debug"
	"sort"
	"strconv"
	"strings"
	"sync"
	"sync/atomic"
	"time"
)

// ---------------------------------------------------------------- environment

type Env struct {
	Tier    string // "quick" | "thorough"
	Seed    int64  // VERIF_SEED as given to the driver
	Shard   int    // 0-based
	NShards int
	EvDir   string // directory for shard evidence (may be "")
	Root    string // /verif
	Replay  string // path of a replay file (replay mode) or ""
}

func GetEnv() Env {
	e := Env{Tier: os.Getenv("VERIF_TIER"), EvDir: os.Getenv("VERIF_EVDIR"), Root: os.Getenv("VERIF_ROOT"), Replay: os.Getenv("VERIF_REPLAY")}
	if e.Tier == "" {
		e.Tier = "quick"
	}
	if e.Root == "" {
		e.Root = "/verif"
	}
	e.Seed, _ = strconv.ParseInt(os.Getenv("VERIF_SEED"), 10, 64)
	e.Shard, _ = strconv.Atoi(os.Getenv("VERIF_SHARD"))
	e.NShards, _ = strconv.Atoi(os.Getenv("VERIF_NSHARDS"))
	if e.NShards <= 0 {
		e.NShards = 1
	}
	return e
}

func (e Env) Thorough() bool { return e.Tier == "thorough" }

// Pick returns q in the quick tier and t in the thorough tier.
func (e Env) Pick(q, t int) int {
	if e.Thorough() {
		return t
	}
	return q
}

// Mine reports whether index i of a deterministic enumeration belongs to this shard.
func (e Env) Mine(i int) bool { return i%e.NShards == e.Shard }

// Range splits [0,n) into NShards contiguous ranges and returns this shard's.
func (e Env) Range(n int) (lo, hi int) {
	per := (n + e.NShards - 1) / e.NShards
	lo = e.Shard * per
	hi = lo + per
	if lo > n {
		lo = n
	}
	if hi > n {
		hi = n
	}
	return
}

// SplitMix is a tiny deterministic generator for enumerations that need
// "the rest random" filler derived from an index (never from the clock).
type SplitMix uint64

func (s *SplitMix) Next() uint64 {
	*s += 0x9e3779b97f4a7c15
	z := uint64(*s)
	z = (z ^ (z >> 30)) * 0xbf58476d1ce4e5b9
	z = (z ^ (z >> 27)) * 0x94d049bb133111eb
	return z ^ (z >> 31)
}
func (s *SplitMix) Intn(n int) int { return int(s.Next() % uint64(n)) }

// ---------------------------------------------------------------- recorder

type Recorder struct {
	mu          sync.Mutex
	Prop        string
	env         Env
	evals       int64
	constructed int64 // distinct non-trivial by construction (disjoint across shards)
	hashes      map[uint64]struct{}
	hashCap     int
	classes     map[string]int64
	samples     []any
	sampleSeen  map[string]int
	known       map[string]int64
	notes       map[string]string
	exhaustive  []string
	prev        map[string]seqEntry
	coldDone    map[string]int
}

func NewRecorder(prop string) *Recorder {
	r := newRecorder(prop)
	current = r
	return r
}

func newRecorder(prop string) *Recorder {
	return &Recorder{Prop: prop, env: GetEnv(), hashes: map[uint64]struct{}{}, hashCap: 4_000_000,
		classes: map[string]int64{}, sampleSeen: map[string]int{}, known: map[string]int64{}, notes: map[string]string{}}
}

func (r *Recorder) Env() Env { return r.env }

// Eval counts one oracle evaluation.
func (r *Recorder) Eval() { r.mu.Lock(); r.evals++; r.mu.Unlock() }

// EvalN counts n oracle evaluations (enumerations count in bulk).
func (r *Recorder) EvalN(n int64) { r.mu.Lock(); r.evals += n; r.mu.Unlock() }

// NonTrivial records a non-trivial case identified by its canonical encoding.
func (r *Recorder) NonTrivial(parts ...any) {
	h := fnv.New64a()
	for _, p := range parts {
		switch v := p.(type) {
		case []byte:
			var l [4]byte
			binary.BigEndian.PutUint32(l[:], uint32(len(v)))
			h.Write(l[:])
			h.Write(v)
		case string:
			var l [4]byte
			binary.BigEndian.PutUint32(l[:], uint32(len(v)))
			h.Write(l[:])
			h.Write([]byte(v))
		default:
			fmt.Fprintf(h, "%T:%v|", v, v)
		}
	}
	k := h.Sum64()
	r.mu.Lock()
	if len(r.hashes) < r.hashCap {
		r.hashes[k] = struct{}{}
	}
	r.mu.Unlock()
}

// NonTrivialConstructed counts n cases that are distinct by construction and
// that no other shard enumerates (index-partitioned exhaustive grids).
func (r *Recorder) NonTrivialConstructed(n int64) { r.mu.Lock(); r.constructed += n; r.mu.Unlock() }

func (r *Recorder) Class(name string)           { r.mu.Lock(); r.classes[name]++; r.mu.Unlock() }
func (r *Recorder) ClassN(name string, n int64) { r.mu.Lock(); r.classes[name] += n; r.mu.Unlock() }
func (r *Recorder) Note(k, v string)            { r.mu.Lock(); r.notes[k] = v; r.mu.Unlock() }
func (r *Recorder) Exhaustive(what string) {
	r.mu.Lock()
	r.exhaustive = append(r.exhaustive, what)
	r.mu.Unlock()
}

// Sample keeps up to perKind samples of each kind (first ones seen).
func (r *Recorder) Sample(kind string, v any) {
	r.mu.Lock()
	defer r.mu.Unlock()
	r.sampleSeen[kind]++
	n := r.sampleSeen[kind]
	// keep the 1st, 50th and 2000th case of each kind: later cases are more
	// representative of what the generator produces than the first ones
	if (n != 1 && n != 50 && n != 2000) || len(r.samples) >= 30 {
		return
	}
	r.samples = append(r.samples, map[string]any{"kind": kind, "n": n, "case": v})
}

type shardFile struct {
	Prop        string            `json:"prop"`
	Shard       int               `json:"shard"`
	Evals       int64             `json:"evals"`
	Constructed int64             `json:"constructed"`
	NHashes     int               `json:"n_hashes"`
	HashFile    string            `json:"hash_file"`
	Classes     map[string]int64  `json:"classes"`
	Samples     []any             `json:"samples"`
	Known       map[string]int64  `json:"known"`
	Notes       map[string]string `json:"notes"`
	Exhaustive  []string          `json:"exhaustive"`
}

// Flush writes the shard evidence; safe to call several times (last wins).
// tag distinguishes several test functions of one binary.
func (r *Recorder) Flush(tag string) {
	r.mu.Lock()
	defer r.mu.Unlock()
	if r.env.EvDir == "" {
		return
	}
	_ = os.MkdirAll(r.env.EvDir, 0o755)
	base := filepath.Join(r.env.EvDir, fmt.Sprintf("%s.%s.s%02d", r.Prop, tag, r.env.Shard))
	hs := make([]uint64, 0, len(r.hashes))
	for k := range r.hashes {
		hs = append(hs, k)
	}
	sort.Slice(hs, func(i, j int) bool { return hs[i] < hs[j] })
	buf := make([]byte, 8*len(hs))
	for i, k := range hs {
		binary.LittleEndian.PutUint64(buf[8*i:], k)
	}
	_ = os.WriteFile(base+".hashes", buf, 0o644)
	sf := shardFile{Prop: r.Prop, Shard: r.env.Shard, Evals: r.evals, Constructed: r.constructed, NHashes: len(hs),
		HashFile: base + ".hashes", Classes: r.classes, Samples: r.samples, Known: r.known, Notes: r.notes, Exhaustive: r.exhaustive}
	b, _ := json.MarshalIndent(sf, "", " ")
	_ = os.WriteFile(base+".json", b, 0o644)
}

// ---------------------------------------------------------------- known findings

type Finding struct {
	Property string          `json:"property"`
	Status   string          `json:"status"` // "open" | "fixed"
	Key      string          `json:"key"`
	What     string          `json:"what"`
	Commit   string          `json:"commit,omitempty"`
	Line     string          `json:"line,omitempty"`
	Probe    json.RawMessage `json:"probe,omitempty"` // a replay case that exhibits it
}

type findingsFile struct {
	Findings []Finding `json:"findings"`
}

var (
	kfOnce sync.Once
	kfOpen map[string]Finding
	kfAll  []Finding
)

func loadKF() {
	kfOpen = map[string]Finding{}
	b, err := os.ReadFile(filepath.Join(GetEnv().Root, "known_findings.json"))
	if err != nil {
		return
	}
	var ff findingsFile
	if json.Unmarshal(b, &ff) != nil {
		return
	}
	kfAll = ff.Findings
	for _, f := range ff.Findings {
		if f.Status == "open" {
			kfOpen[f.Property+"|"+f.Key] = f
		}
	}
}

// OpenFindings returns the open findings listed for a property.
func OpenFindings(prop string) []Finding {
	kfOnce.Do(loadKF)
	var out []Finding
	for _, f := range kfAll {
		if f.Property == prop && f.Status == "open" {
			out = append(out, f)
		}
	}
	return out
}

// IsKnown reports whether (prop,key) is an open listed finding. Only open
// entries suppress; fixed entries suppress nothing.
func IsKnown(prop, key string) bool {
	kfOnce.Do(loadKF)
	if _, ok := kfOpen[prop+"|"+key]; ok {
		return true
	}
	// the same observation reported from inside a call-sequence wrapper ("after-.../", "cold-start/",
	// "state-carried-between-calls/") is still the listed observation: match the listed key as a path suffix
	for i := 0; i < len(key); i++ {
		if key[i] == '/' {
			if _, ok := kfOpen[prop+"|"+key[i+1:]]; ok {
				return true
			}
		}
	}
	return false
}

// ---------------------------------------------------------------- violations

// Violation is what an oracle returns when the property does not hold on a case.
type Violation struct {
	Key  string // classification: call site + input class + wrong observation ("" = unclassified)
	Msg  string
	Case any // JSON-serialisable replay case (domain terms + hex)
}

func (v *Violation) Error() string { return v.Msg }

func Violf(key string, c any, format string, a ...any) *Violation {
	return &Violation{Key: key, Case: c, Msg: fmt.Sprintf(format, a...)}
}

type TB interface {
	Fatalf(format string, args ...any)
	Helper()
}

type replayFile struct {
	Property string `json:"property"`
	Kind     string `json:"kind"`
	Key      string `json:"key"`
	Message  string `json:"message"`
	Case     any    `json:"case"`
}

// Report handles the outcome of one oracle evaluation. A violation that is an
// open listed finding is counted and tolerated; any other violation writes the
// replay file (overwritten on every call, so that after shrinking the file
// holds the minimal case) and fails the test.
func (r *Recorder) Report(t TB, kind string, v *Violation) {
	t.Helper()
	if v == nil {
		return
	}
	if v.Key != "" && IsKnown(r.Prop, v.Key) {
		r.mu.Lock()
		r.known[v.Key]++
		r.mu.Unlock()
		return
	}
	path := r.WriteReplay(kind, v)
	t.Fatalf("VIOLATION-CASE property=%s kind=%s key=%q replay=%s\n%s", r.Prop, kind, v.Key, path, v.Msg)
}

func (r *Recorder) WriteReplay(kind string, v *Violation) string {
	dir := filepath.Join(r.env.Root, "replays", r.Prop)
	_ = os.MkdirAll(dir, 0o755)
	path := filepath.Join(dir, fmt.Sprintf("%s-%s-seed%d-s%02d.json", kind, keyHead(v.Key), r.env.Seed, r.env.Shard))
	b, _ := json.MarshalIndent(replayFile{Property: r.Prop, Kind: kind, Key: v.Key, Message: v.Msg, Case: v.Case}, "", " ")
	_ = os.WriteFile(path, b, 0o644)
	return path
}

// keyHead is the first component of a violation key, made file-name safe. It
// stays constant while one failing case shrinks, and differs between the
// sub-checks of a package, so concurrent findings do not overwrite each other.
func keyHead(k string) string {
	out := []byte{}
	for i := 0; i < len(k) && k[i] != '/' && len(out) < 48; i++ {
		c := k[i]
		if c >= 'a' && c <= 'z' || c >= 'A' && c <= 'Z' || c >= '0' && c <= '9' || c == '.' || c == '_' {
			out = append(out, c)
		} else {
			out = append(out, '_')
		}
	}
	if len(out) == 0 {
		return "case"
	}
	return string(out)
}

// LoadReplay reads a replay file and returns its kind and raw case.
func LoadReplay(path string) (kind string, raw json.RawMessage, err error) {
	b, err := os.ReadFile(path)
	if err != nil {
		return "", nil, err
	}
	var rf struct {
		Kind string          `json:"kind"`
		Case json.RawMessage `json:"case"`
	}
	if err = json.Unmarshal(b, &rf); err != nil {
		return "", nil, err
	}
	return rf.Kind, rf.Case, nil
}

// ---------------------------------------------------------------- replay / probes

// Registry maps a replay kind to the oracle that re-evaluates a saved case
// directly (no generator, no randomness).
type Registry map[string]func(raw json.RawMessage) *Violation

type TBLog interface {
	TB
	Logf(format string, args ...any)
	Skip(args ...any)
}

// RunReplay is the body of every package's TestReplay.
func RunReplay(t TBLog, reg Registry) {
	path := GetEnv().Replay
	if path == "" {
		t.Skip("no VERIF_REPLAY")
		return
	}
	kind, raw, err := LoadReplay(path)
	if err != nil {
		t.Fatalf("cannot load replay %s: %v", path, err)
	}
	f, ok := reg[kind]
	if !ok {
		t.Fatalf("unknown replay kind %q", kind)
	}
	if v := f(raw); v != nil {
		t.Fatalf("REPLAY-FAILS key=%q\n%s", v.Key, v.Msg)
	}
	t.Logf("REPLAY-PASSES %s", path)
}

// RunProbes re-evaluates the probe of every open listed finding of the
// property and prints one KNOWN-FINDING line for each that still fails with
// its listed key. A probe that fails with a different key is a violation.
func (r *Recorder) RunProbes(t TBLog, reg Registry) {
	if r.env.Shard != 0 {
		return
	}
	for _, f := range OpenFindings(r.Prop) {
		if len(f.Probe) == 0 {
			fmt.Printf("KNOWN-FINDING: property=%s %s (no probe recorded)\n", r.Prop, f.What)
			continue
		}
		var p struct {
			Kind string          `json:"kind"`
			Case json.RawMessage `json:"case"`
		}
		if err := json.Unmarshal(f.Probe, &p); err != nil {
			t.Fatalf("bad probe for %s: %v", f.Key, err)
		}
		fn, ok := reg[p.Kind]
		if !ok {
			t.Fatalf("probe of %s has unknown kind %q", f.Key, p.Kind)
		}
		v := fn(p.Case)
		switch {
		case v == nil:
			fmt.Printf("KNOWN-FINDING-NOT-REPRODUCED: property=%s key=%s (listed as open, probe now passes)\n", r.Prop, f.Key)
		case v.Key == f.Key:
			fmt.Printf("KNOWN-FINDING: property=%s %s [key=%s]\n", r.Prop, f.What, f.Key)
			r.mu.Lock()
			r.known[f.Key]++
			r.mu.Unlock()
		default:
			r.Report(t, p.Kind, v)
		}
	}
}

// Hex helpers used in replay cases.
func Hex(b []byte) string { return fmt.Sprintf("%x", b) }

func UnHex(s string) []byte {
	b := make([]byte, len(s)/2)
	for i := range b {
		var v byte
		fmt.Sscanf(s[2*i:2*i+2], "%02x", &v)
		b[i] = v
	}
	return b
}

// RunRegress re-evaluates every saved case under /verif/regress/<prop>/ (the
// shrunk reproductions of earlier findings, fixed or open) through the
// registered oracles: the seconds-long replay tier that bypasses the generators.
func (r *Recorder) RunRegress(t TBLog, reg Registry) {
	if r.env.Shard != 0 {
		return
	}
	files, _ := filepath.Glob(filepath.Join(r.env.Root, "regress", r.Prop, "*.json"))
	sort.Strings(files)
	for _, f := range files {
		kind, raw, err := LoadReplay(f)
		if err != nil {
			t.Fatalf("cannot load regress case %s: %v", f, err)
		}
		fn, ok := reg[kind]
		if !ok {
			t.Fatalf("regress case %s has unknown kind %q", f, kind)
		}
		r.Eval()
		r.Class("regress_cases")
		r.NonTrivial("regress", filepath.Base(f))
		r.Report(t, kind, fn(raw))
	}
}

// ---------------------------------------------------------------- panic capture and hang watchdog

var current *Recorder // the package's recorder (set by NewRecorder)

// HangLimit is the wall-clock limit for one guarded library call. Legitimate
// calls on <= 64 KiB inputs finish in microseconds to milliseconds.
var HangLimit = 10 * time.Second

// HangExit is the distinctive exit status of a process whose watchdog fired.
const HangExit = 97

// Guarded runs one library call under recover and under the hang watchdog.
// A panic is returned as text (with the stack). If the call does not return
// within HangLimit the case is written as a replay file, a WATCHDOG-HANG line
// is printed and the process exits with HangExit (a spinning goroutine cannot
// be stopped in Go); the driver then re-confirms the case in a fresh process
// before it counts as a violation.
func Guarded(kind, key string, c func() any, f func()) (panicked string) {
	r := current
	var done atomic.Bool
	defer done.Store(true)
	tm := time.AfterFunc(HangLimit, func() {
		// The timer also fires when the whole machine stood still for a while (a suspended or snapshotted VM:
		// the clock jumps, every process's watchdog goes off at once). A call that really hangs is still
		// hanging three seconds of normal running later; a call that was merely frozen finishes at once.
		for i := 0; i < 30; i++ {
			time.Sleep(100 * time.Millisecond)
			if done.Load() {
				return
			}
		}
		var cs any
		if c != nil {
			cs = c()
		}
		path := "(no recorder)"
		if r != nil {
			if IsKnown(r.Prop, key) {
				// a listed open finding that hangs cannot be tolerated in-process
				fmt.Printf("WATCHDOG-HANG-KNOWN property=%s key=%s\n", r.Prop, key)
			}
			path = r.WriteReplay(kind, &Violation{Key: key, Msg: fmt.Sprintf("call did not return within %v", HangLimit), Case: cs})
			fmt.Printf("WATCHDOG-HANG property=%s key=%q replay=%s\n", r.Prop, key, path)
			r.Flush("hang")
		} else {
			fmt.Printf("WATCHDOG-HANG replay=%s\n", path)
		}
		os.Exit(HangExit)
	})
	defer tm.Stop()
	defer func() {
		if rec := recover(); rec != nil {
			panicked = fmt.Sprintf("panic: %v\n%s", rec, debug.Stack())
		}
	}()
	f()
	return ""
}

// ---------------------------------------------------------------- call-sequence independence

type seqEntry struct {
	c      any
	oracle func() *Violation
}

// SeqCase is the replay form of a call-sequence violation.
type SeqCase struct {
	Kind    string  `json:"kind"`
	First   any     `json:"first"`
	Then    any     `json:"then"`
	Disturb *uint64 `json:"disturb,omitempty"` // argument of the failing-calls hook run before First is evaluated again
}

// Disturb, when set (gen.Disturb), performs FAILING library calls chosen by its argument. ReportSeq runs
// it between the evaluation of a case and the re-evaluation of the previous one, so that every case is also
// evaluated right after failed calls: a failed call must leave nothing behind that reaches the next one.
var Disturb func(n uint64)

var disturbCtr atomic.Uint64

// ReportSeq evaluates one case like Report and, in addition, re-evaluates the
// PREVIOUS case of the same kind afterwards: the library's functions are pure
// with respect to their arguments, so a case that held before must still hold
// after an unrelated call. A failure here means state is carried between calls
// (a cache keyed too coarsely, a shared response object, a memoised result).
// The violation's case holds both cases; replay kind "sequence" re-runs
// first, then, first through the registry.
func (r *Recorder) ReportSeq(t TB, kind string, c any, oracle func() *Violation) {
	t.Helper()
	retMu.Lock()
	retFrom = c
	retMu.Unlock()
	if v := oracle(); v != nil {
		r.Report(t, kind, v)
		return
	}
	// results the library returned in EARLIER evaluations (vk.Retain) must not have changed
	if desc, from, changed := CheckRetained(); changed {
		r.Report(t, "sequence", &Violation{Key: "earlier-result-changed-after-later-calls/" + desc, Case: SeqCase{Kind: kind, First: from, Then: c},
			Msg: "a result returned earlier (" + desc + ") changed after later calls of the API: it shares memory with a pooled or cached buffer"})
		return
	}
	r.mu.Lock()
	if r.prev == nil {
		r.prev = map[string]seqEntry{}
		r.coldDone = map[string]int{}
	}
	p, ok := r.prev[kind]
	r.prev[kind] = seqEntry{c, oracle}
	cold := r.env.Shard == 0 && r.coldDone[kind] < 2 && os.Getenv("VERIF_COLD") == ""
	if cold {
		r.coldDone[kind]++
	}
	r.mu.Unlock()
	if cold {
		// the first cases of every kind are also evaluated as the first library use of a fresh process
		r.Eval()
		r.Class("cold_start:" + kind)
		if v := ColdEval(kind, c); v != nil && !IsKnown(r.Prop, strings.TrimPrefix(v.Key, "cold-start/")) {
			r.Report(t, "cold", v)
			return
		}
	}
	if !ok {
		return
	}
	r.Eval()
	var dn *uint64
	if n := disturbCtr.Add(1); Disturb != nil && n%3 == 0 {
		dn = &n
		Disturb(n / 3)
	}
	if pv := p.oracle(); pv != nil {
		r.Report(t, "sequence", &Violation{Key: "state-carried-between-calls/" + pv.Key, Case: SeqCase{Kind: kind, First: p.c, Then: c, Disturb: dn},
			Msg: "a case that held when evaluated first no longer holds after another call of the same API (state is carried between calls):\n" + pv.Msg})
	}
}

// SequenceReplayer returns the registry entry for kind "sequence".
func SequenceReplayer(reg Registry) func(raw json.RawMessage) *Violation {
	reg["cold"] = ColdReplayer()
	return func(raw json.RawMessage) *Violation {
		var sc struct {
			Kind    string          `json:"kind"`
			First   json.RawMessage `json:"first"`
			Then    json.RawMessage `json:"then"`
			Disturb *uint64         `json:"disturb"`
		}
		if err := json.Unmarshal(raw, &sc); err != nil {
			return Violf("", nil, "bad sequence case: %v", err)
		}
		f, ok := reg[sc.Kind]
		if !ok {
			return Violf("", nil, "unknown kind %q in sequence case", sc.Kind)
		}
		ResetRetained()
		if v := f(sc.First); v != nil {
			return v
		}
		if v := f(sc.Then); v != nil {
			return v
		}
		if desc, _, changed := CheckRetained(); changed {
			return Violf("earlier-result-changed-after-later-calls/"+desc, nil, "a result returned by the first case (%s) changed after the second case ran", desc)
		}
		if sc.Disturb != nil && Disturb != nil {
			Disturb(*sc.Disturb / 3)
		}
		if v := f(sc.First); v != nil {
			v.Key = "state-carried-between-calls/" + v.Key
			return v
		}
		return nil
	}
}

// ---------------------------------------------------------------- retained results

type retained struct {
	desc string
	b    []byte  // the library's result itself (not a copy)
	s    *string // or a string result
	snap []byte
	from any // the case that produced it
}

var (
	retMu   sync.Mutex
	retRing []retained
	retFrom any
)

const retCap = 96

// RetainEnabled is switched off inside bulk enumerations (millions of calls), where retaining is pointless.
var RetainEnabled = true

// Retain remembers a []byte the library returned (the slice itself) together
// with a snapshot. Results belong to the caller: whatever the library does in
// later calls must not change them. CheckRetained compares.
func Retain(desc string, b []byte) {
	if len(b) == 0 || !RetainEnabled {
		return
	}
	// the result belongs to the caller, spare capacity included: a caller that appends to it writes there.
	// Whatever lies behind len(b) must not be anybody else's memory (another part of the same result, a
	// neighbouring value of a parsed set, a pooled buffer): it is overwritten now, and every retained
	// result is compared with its snapshot later.
	ScribbleSpare(b)
	retMu.Lock()
	retRing = append(retRing, retained{desc: desc, b: b, snap: append([]byte(nil), b...), from: retFrom})
	if len(retRing) > retCap {
		retRing = retRing[len(retRing)-retCap:]
	}
	retMu.Unlock()
}

// ScribbleSpare overwrites the spare capacity b[len(b):cap(b)] of a slice the library returned.
func ScribbleSpare(b []byte) {
	x := b[len(b):cap(b)]
	for i := range x {
		x[i] = 0xC3 ^ byte(i*5)
	}
}

// SharedSpare reports the first pair (i, j) such that overwriting the spare capacity of parts[i] changes
// parts[j]: the parts of one result must be independent of each other for a caller that appends to one.
func SharedSpare(parts [][]byte) (i, j int, shared bool) {
	snap := make([][]byte, len(parts))
	for k := range parts {
		snap[k] = append([]byte(nil), parts[k]...)
	}
	for a := range parts {
		ScribbleSpare(parts[a])
		for b := range parts {
			if string(parts[b]) != string(snap[b]) {
				return a, b, true
			}
		}
	}
	return 0, 0, false
}

// Overwrite fills a result the caller is done with (it owns it: a send buffer that is recycled, a value
// that is edited in place) and, if the result is retained, keeps its snapshot in step. Later calls of the
// library must not see it: a memoised or interned result that was handed out shows up as a wrong answer.
func Overwrite(b []byte) {
	if len(b) == 0 {
		return
	}
	for k := range b {
		b[k] = 0x5A ^ byte(k*3)
	}
	retMu.Lock()
	for i := range retRing {
		if len(retRing[i].b) > 0 && &retRing[i].b[0] == &b[0] {
			retRing[i].snap = append(retRing[i].snap[:0], retRing[i].b...)
		}
	}
	retMu.Unlock()
}

// RetainString does the same for a returned string (which may alias pooled memory through an unsafe conversion).
func RetainString(desc string, s string) {
	if len(s) == 0 || !RetainEnabled {
		return
	}
	retMu.Lock()
	sp := new(string)
	*sp = s
	retRing = append(retRing, retained{desc: desc, s: sp, snap: []byte(s), from: retFrom})
	if len(retRing) > retCap {
		retRing = retRing[len(retRing)-retCap:]
	}
	retMu.Unlock()
}

// CheckRetained compares every retained result with its snapshot and drops the ring entry that differs.
func CheckRetained() (desc string, from any, changed bool) {
	retMu.Lock()
	defer retMu.Unlock()
	for i, r := range retRing {
		var cur []byte
		if r.s != nil {
			cur = []byte(*r.s)
		} else {
			cur = r.b
		}
		if string(cur) != string(r.snap) {
			retRing = append(retRing[:i:i], retRing[i+1:]...)
			return r.desc, r.from, true
		}
	}
	return "", nil, false
}

// ResetRetained forgets everything (replay starts from a clean slate).
func ResetRetained() { retMu.Lock(); retRing = nil; retMu.Unlock() }

// ---------------------------------------------------------------- cold start

// ColdCase is the replay form of a cold-start evaluation: the inner case is evaluated as the very first
// use of the library in a fresh process.
type ColdCase struct {
	Kind string `json:"kind"`
	Case any    `json:"case"`
}

// ColdEval evaluates the case (kind must be in the package's replay registry) as the FIRST library use of a
// fresh process: the test binary re-executes itself with -test.run ^TestReplay$ on a temporary replay
// file. Lazily initialised tables, sync.Once set-ups and warm pools are then in their start-up state,
// which the long-running property process never sees again after its first call. Returns the child's
// verdict (nil = holds, or could not be run: a spawn failure is not a violation).
func ColdEval(kind string, c any) *Violation {
	dir, err := os.MkdirTemp("", "verifcold")
	if err != nil {
		return nil
	}
	defer os.RemoveAll(dir)
	path := filepath.Join(dir, "case.json")
	b, err := json.Marshal(map[string]any{"kind": kind, "case": c})
	if err != nil || os.WriteFile(path, b, 0o644) != nil {
		return nil
	}
	cmd := exec.Command(os.Args[0], "-test.run=^TestReplay$", "-test.count=1", "-test.timeout=60s")
	cmd.Env = append(os.Environ(), "VERIF_REPLAY="+path, "VERIF_EVDIR=", "VERIF_COLD=1")
	out, _ := cmd.CombinedOutput()
	s := string(out)
	if i := strings.Index(s, "REPLAY-FAILS key="); i >= 0 {
		rest := s[i+len("REPLAY-FAILS key="):]
		key := rest
		if j := strings.IndexByte(rest, '\n'); j >= 0 {
			key = rest[:j]
		}
		key = strings.Trim(key, "\"")
		msg := rest
		if len(msg) > 1500 {
			msg = msg[:1500]
		}
		return &Violation{Key: "cold-start/" + key, Case: ColdCase{Kind: kind, Case: c},
			Msg: "evaluated as the first library call of a fresh process the case fails (it holds in a warmed-up process):\n" + msg}
	}
	if strings.Contains(s, "panic:") && !strings.Contains(s, "REPLAY-PASSES") {
		if len(s) > 1500 {
			s = s[:1500]
		}
		return &Violation{Key: "cold-start/panic", Case: ColdCase{Kind: kind, Case: c}, Msg: "fresh process panicked:\n" + s}
	}
	return nil
}

// ColdReplayer returns the registry entry for kind "cold".
func ColdReplayer() func(raw json.RawMessage) *Violation {
	return func(raw json.RawMessage) *Violation {
		var cc struct {
			Kind string          `json:"kind"`
			Case json.RawMessage `json:"case"`
		}
		if err := json.Unmarshal(raw, &cc); err != nil {
			return Violf("", nil, "bad cold case: %v", err)
		}
		if os.Getenv("VERIF_COLD") != "" {
			return nil // never recurse
		}
		return ColdEval(cc.Kind, cc.Case)
	}
}

// ---------------------------------------------------------------- colliding inputs

// CollidingPairs searches n generated strings for pairs of DIFFERENT strings of equal length that collide
// under a common 32-bit non-cryptographic hash (FNV-1a, FNV-1, CRC-32 IEEE, Adler-32): the inputs on which a
// memo, an interning table or a cache keyed by such a hash - instead of by the value - returns somebody
// else's entry. By the birthday bound a few hundred thousand candidates give a handful of pairs per hash.
func CollidingPairs(gen func(i uint64) string, n int) [][2]string {
	type key struct {
		h    uint32
		l    int
		kind int
	}
	seen := map[key]string{}
	var out [][2]string
	per := map[int]int{}
	for i := 0; i < n; i++ {
		s := gen(uint64(i))
		b := []byte(s)
		h1 := fnv.New32a()
		h1.Write(b)
		h2 := fnv.New32()
		h2.Write(b)
		for kind, h := range []uint32{h1.Sum32(), h2.Sum32(), crc32.ChecksumIEEE(b), adler32.Checksum(b)} {
			if per[kind] >= 6 {
				continue
			}
			k := key{h, len(s), kind}
			if prev, ok := seen[k]; ok && prev != s {
				out = append(out, [2]string{prev, s})
				per[kind]++
				continue
			}
			seen[k] = s
		}
	}
	return out
}
