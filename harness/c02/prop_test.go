// C02 — encoded bytes are exactly the layout the protocol specifications prescribe,
// and specification-conformant images decode to the values they carry.
package c02

import (
	"bytes"
	"encoding/binary"
	"encoding/json"
	"fmt"
	"io"
	"os"
	"testing"

	"github.com/hujm2023/go-sms-protocol/cmpp"
	"github.com/hujm2023/go-sms-protocol/packet"
	"github.com/hujm2023/go-sms-protocol/sgip"
	"github.com/hujm2023/go-sms-protocol/smgp"
	"github.com/hujm2023/go-sms-protocol/smpp"

	"pgregory.net/rapid"

	"verifharness/gen"
	"verifharness/ref"
	"verifharness/vk"
)

var rec = vk.NewRecorder("C02")

func TestMain(m *testing.M) {
	vk.Disturb = gen.Disturb
	code := m.Run()
	rec.Flush("all")
	os.Exit(code)
}

func fromCase(raw json.RawMessage) (*gen.Binding, *ref.Vals, *vk.Violation) {
	var c gen.PCase
	_ = json.Unmarshal(raw, &c)
	s, v := ref.FromJ(c.Vals)
	if s == nil {
		return nil, nil, vk.Violf("", c, "unknown spec %s", c.Vals.Spec)
	}
	return gen.ByID(s.ID()), v, nil
}

var reg = vk.Registry{
	"layout-encode": func(raw json.RawMessage) *vk.Violation {
		b, v, e := fromCase(raw)
		if e != nil {
			return e
		}
		return gen.LayoutEncode(b, v)
	},
	"layout-decode": func(raw json.RawMessage) *vk.Violation {
		b, v, e := fromCase(raw)
		if e != nil {
			return e
		}
		return gen.LayoutDecode(b, v)
	},
}

func init() { reg["sequence"] = vk.SequenceReplayer(reg) }

func TestReplay(t *testing.T) { vk.RunReplay(t, reg) }

func TestSelf(t *testing.T) {
	if p := gen.CoverageSelfTest(); len(p) > 0 {
		t.Fatalf("HARNESS-INTEGRITY: the field tables do not cover the library's structs:\n%v", p)
	}
	rec.RunProbes(t, reg)
	rec.RunRegress(t, reg)
}

func eval(t vk.TB, b *gen.Binding, v *ref.Vals) {
	rec.EvalN(2)
	if gen.NonTrivial(b.Spec, v) {
		rec.NonTrivial(b.Spec.ID(), ref.Encode(b.Spec, v))
	}
	rec.Class("type:" + b.Spec.ID())
	for _, f := range b.Spec.Fields {
		if f.Kind == ref.Count8 && v.U(f.Name) >= 13 {
			rec.Class("count>=13")
		}
	}
	rec.Sample(b.Spec.Proto, ref.ToJ(b.Spec, v))
	rec.ReportSeq(t, "layout-encode", gen.PCase{Vals: ref.ToJ(b.Spec, v)}, func() *vk.Violation { return gen.LayoutEncode(b, v) })
	rec.ReportSeq(t, "layout-decode", gen.PCase{Vals: ref.ToJ(b.Spec, v)}, func() *vk.Violation { return gen.LayoutDecode(b, v) })
	if gen.HasHexID(b.Spec) {
		rec.Eval()
		rec.Class("smgp_message_id_given_as_raw_octets")
		rec.Report(t, "layout-rawid", gen.LayoutEncodeRawID(b, v))
	}
}

func init() {
	reg["layout-rawid"] = func(raw json.RawMessage) *vk.Violation {
		b, v, e := fromCase(raw)
		if e != nil {
			return e
		}
		return gen.LayoutEncodeRawID(b, v)
	}
	reg["header-words"] = func(raw json.RawMessage) *vk.Violation {
		var c HdrWords
		_ = json.Unmarshal(raw, &c)
		return checkHeaderWords(c)
	}
	reg["header-reader"] = func(raw json.RawMessage) *vk.Violation {
		var c HdrCase
		_ = json.Unmarshal(raw, &c)
		return checkHeaderReader(c)
	}
}

// HdrWords: five arbitrary 32-bit words taken as a header (cmpp/smgp use 3, smpp 4, sgip 5): every exported
// header reader and writer of the four packages must agree with the big-endian words at their offsets.
type HdrWords struct {
	W [5]uint32 `json:"words"`
}

func checkHeaderWords(c HdrWords) *vk.Violation {
	var v *vk.Violation
	img := make([]byte, 20)
	for i, w := range c.W {
		binary.BigEndian.PutUint32(img[4*i:], w)
	}
	wr := func(f func(w *packet.Writer), withLen bool) ([]byte, error) {
		w := packet.NewPacketWriter()
		defer w.Release()
		f(w)
		if withLen {
			return w.BytesWithLength()
		}
		return w.Bytes()
	}
	bad := func(what string, got []byte, err error, want []byte) *vk.Violation {
		if err != nil || !bytes.Equal(got, want) {
			return vk.Violf("header-words/"+what, c, "%s produced %x, %v; the header words are %x", what, got, err, want)
		}
		return nil
	}
	pn := vk.Guarded("header-words", "header-words/hang", func() any { return c }, func() {
		W := c.W
		// CMPP
		ch := cmpp.NewHeader(W[0], cmpp.CommandID(W[1]), W[2])
		b, err := wr(func(w *packet.Writer) { cmpp.WriteHeader(ch, w) }, false)
		if v = bad("cmpp.WriteHeader", b, err, img[:12]); v != nil {
			return
		}
		b, err = wr(func(w *packet.Writer) { cmpp.WriteHeaderNoLength(ch, w) }, true)
		if v = bad("cmpp.WriteHeaderNoLength+BytesWithLength", b, err, append([]byte{0, 0, 0, 12}, img[4:12]...)); v != nil {
			return
		}
		if v = bad("cmpp.Header.Bytes", ch.Bytes(), nil, img[:12]); v != nil {
			return
		}
		if h, err := cmpp.PeekHeader(img[:12]); err != nil || h != ch {
			v = vk.Violf("header-words/cmpp.PeekHeader", c, "cmpp.PeekHeader(%x) = %+v, %v", img[:12], h, err)
			return
		}
		if h, err := cmpp.NewHeaderFromBytes(img[:12]); err != nil || h != ch {
			v = vk.Violf("header-words/cmpp.NewHeaderFromBytes", c, "cmpp.NewHeaderFromBytes(%x) = %+v, %v", img[:12], h, err)
			return
		}
		if r := packet.NewPacketReader(img[:12]); cmpp.ReadHeader(r) != ch || r.Error() != nil || r.Remaining() != 0 {
			v = vk.Violf("header-words/cmpp.ReadHeader", c, "cmpp.ReadHeader(%x) differs from the words or leaves input", img[:12])
			return
		}
		// SMGP
		gh := smgp.NewHeader(W[0], smgp.CommandID(W[1]), W[2])
		b, err = wr(func(w *packet.Writer) { smgp.WriteHeader(gh, w) }, false)
		if v = bad("smgp.WriteHeader", b, err, img[:12]); v != nil {
			return
		}
		b, err = wr(func(w *packet.Writer) { smgp.WriteHeaderNoLength(gh, w) }, true)
		if v = bad("smgp.WriteHeaderNoLength+BytesWithLength", b, err, append([]byte{0, 0, 0, 12}, img[4:12]...)); v != nil {
			return
		}
		if v = bad("smgp.Header.Bytes", gh.Bytes(), nil, img[:12]); v != nil {
			return
		}
		if h, err := smgp.PeekHeader(img[:12]); err != nil || h != gh {
			v = vk.Violf("header-words/smgp.PeekHeader", c, "smgp.PeekHeader(%x) = %+v, %v", img[:12], h, err)
			return
		}
		if h, err := smgp.NewHeaderFromBytes(img[:12]); err != nil || h != gh {
			v = vk.Violf("header-words/smgp.NewHeaderFromBytes", c, "smgp.NewHeaderFromBytes(%x) = %+v, %v", img[:12], h, err)
			return
		}
		if r := packet.NewPacketReader(img[:12]); smgp.ReadHeader(r) != gh || r.Error() != nil || r.Remaining() != 0 {
			v = vk.Violf("header-words/smgp.ReadHeader", c, "smgp.ReadHeader(%x) differs from the words or leaves input", img[:12])
			return
		}
		// SMPP
		ph := *smpp.NewPduHeader(W[0], smpp.CMDId(W[1]), smpp.CMDStatus(W[2]), W[3])
		b, err = wr(func(w *packet.Writer) { smpp.WriteHeader(ph, w) }, false)
		if v = bad("smpp.WriteHeader", b, err, img[:16]); v != nil {
			return
		}
		b, err = wr(func(w *packet.Writer) { smpp.WriteHeaderNoLength(ph, w) }, true)
		if v = bad("smpp.WriteHeaderNoLength+BytesWithLength", b, err, append([]byte{0, 0, 0, 16}, img[4:16]...)); v != nil {
			return
		}
		if h, err := smpp.PeekHeader(img[:16]); err != nil || h != ph {
			v = vk.Violf("header-words/smpp.PeekHeader", c, "smpp.PeekHeader(%x) = %+v, %v", img[:16], h, err)
			return
		}
		if r := packet.NewPacketReader(img[:16]); smpp.ReadHeader(r) != ph || r.Error() != nil || r.Remaining() != 0 {
			v = vk.Violf("header-words/smpp.ReadHeader", c, "smpp.ReadHeader(%x) differs from the words or leaves input", img[:16])
			return
		}
		// SGIP
		sh := sgip.Header{TotalLength: W[0], CommandID: sgip.CommandID(W[1]), Sequence: [3]uint32{W[2], W[3], W[4]}}
		b, err = wr(func(w *packet.Writer) { sgip.WriteHeaderNoLength(sh, w) }, true)
		if v = bad("sgip.WriteHeaderNoLength+BytesWithLength", b, err, append([]byte{0, 0, 0, 20}, img[4:20]...)); v != nil {
			return
		}
		if h, err := sgip.PeekHeader(img); err != nil || h != sh {
			v = vk.Violf("header-words/sgip.PeekHeader", c, "sgip.PeekHeader(%x) = %+v, %v", img, h, err)
			return
		}
		if r := packet.NewPacketReader(img); sgip.ReadHeader(r) != sh || r.Error() != nil || r.Remaining() != 0 {
			v = vk.Violf("header-words/sgip.ReadHeader", c, "sgip.ReadHeader(%x) differs from the words or leaves input", img)
			return
		}
		if nh := sgip.NewHeader(W[0], sgip.CommandID(W[1]), W[2], W[4]); nh.TotalLength != W[0] || nh.CommandID != sgip.CommandID(W[1]) || nh.Sequence[0] != W[2] || nh.Sequence[2] != W[4] {
			v = vk.Violf("header-words/sgip.NewHeader", c, "sgip.NewHeader(%#x,%#x,%#x,%#x) = %+v", W[0], W[1], W[2], W[4], nh)
			return
		}
		// short inputs are refused by the peekers
		for n := 0; n < 20; n++ {
			if n < 12 {
				if _, e := cmpp.PeekHeader(img[:n]); e == nil {
					v = vk.Violf("header-words/cmpp.PeekHeader-short", c, "cmpp.PeekHeader accepted %d octets", n)
					return
				}
				if _, e := smgp.PeekHeader(img[:n]); e == nil {
					v = vk.Violf("header-words/smgp.PeekHeader-short", c, "smgp.PeekHeader accepted %d octets", n)
					return
				}
			}
			if n < 16 {
				if _, e := smpp.PeekHeader(img[:n]); e == nil {
					v = vk.Violf("header-words/smpp.PeekHeader-short", c, "smpp.PeekHeader accepted %d octets", n)
					return
				}
			}
			if _, e := sgip.PeekHeader(img[:n]); e == nil {
				v = vk.Violf("header-words/sgip.PeekHeader-short", c, "sgip.PeekHeader accepted %d octets", n)
				return
			}
		}
	})
	if pn != "" {
		return vk.Violf("header-words/panic", c, "panic\n%s", pn)
	}
	return v
}

// HdrCase: twelve header octets (and some more) delivered to the stream-based header readers in pieces.
type HdrCase struct {
	Proto  string `json:"proto"` // cmpp | smgp
	Data   string `json:"data_hex"`
	Pieces []int  `json:"pieces"`        // sizes of the successive reads (the rest in one piece)
	ErrEOF bool   `json:"data_with_eof"` // the last piece is returned together with io.EOF
}

type pieceReader struct {
	data    []byte
	pieces  []int
	witheof bool
}

func (r *pieceReader) Read(p []byte) (int, error) {
	if len(r.data) == 0 {
		return 0, io.EOF
	}
	n := len(r.data)
	if len(r.pieces) > 0 {
		if r.pieces[0] < n {
			n = r.pieces[0]
		}
		r.pieces = r.pieces[1:]
	}
	if n > len(p) {
		n = len(p)
	}
	if n == 0 {
		n = 1
	}
	copy(p, r.data[:n])
	r.data = r.data[n:]
	if len(r.data) == 0 && r.witheof {
		return n, io.EOF
	}
	return n, nil
}

// checkHeaderReader: the header read from a stream equals the header the image carries (total length,
// command id, sequence number at offsets 0, 4, 8), however the stream delivers the octets.
func checkHeaderReader(c HdrCase) *vk.Violation {
	data := vk.UnHex(c.Data)
	r := &pieceReader{data: append([]byte{}, data...), pieces: append([]int{}, c.Pieces...), witheof: c.ErrEOF}
	var l, cmd, seq uint32
	var err error
	pn := vk.Guarded("header-reader", c.Proto+"/hang", func() any { return c }, func() {
		if c.Proto == "cmpp" {
			var h cmpp.Header
			h, err = cmpp.NewHeaderFromReader(r)
			l, cmd, seq = h.TotalLength, uint32(h.CommandID), h.SequenceID
		} else {
			var h smgp.Header
			h, err = smgp.NewHeaderFromReader(r)
			l, cmd, seq = h.TotalLength, uint32(h.CommandID), h.SequenceID
		}
	})
	if pn != "" {
		return vk.Violf(c.Proto+".NewHeaderFromReader/panic", c, "panic\n%s", pn)
	}
	if len(data) < 12 {
		if err == nil {
			return vk.Violf(c.Proto+".NewHeaderFromReader/short-accepted", c, "%s.NewHeaderFromReader accepted a %d-octet stream", c.Proto, len(data))
		}
		return nil
	}
	if err != nil {
		return vk.Violf(c.Proto+".NewHeaderFromReader/error", c, "%s.NewHeaderFromReader failed on a complete header delivered in pieces %v: %v", c.Proto, c.Pieces, err)
	}
	wl, wc, ws := binary.BigEndian.Uint32(data[0:]), binary.BigEndian.Uint32(data[4:]), binary.BigEndian.Uint32(data[8:])
	if l != wl || cmd != wc || seq != ws {
		return vk.Violf(c.Proto+".NewHeaderFromReader/value", c, "%s.NewHeaderFromReader with pieces %v: got (%#x, %#x, %#x), the stream carries (%#x, %#x, %#x)", c.Proto, c.Pieces, l, cmd, seq, wl, wc, ws)
	}
	return nil
}

func TestHeaderFromReader(t *testing.T) {
	rapid.Check(t, func(t *rapid.T) {
		var hw HdrWords
		for i := range hw.W {
			hw.W[i] = rapid.OneOf(rapid.Uint32(), rapid.SampledFrom([]uint32{0, 1, 0x7f, 0x80, 0xff, 0x100, 0xffff, 0x10000, 0x7fffffff, 0x80000000, 0x80000001, 0xffffffff})).Draw(t, "word")
		}
		rec.Eval()
		rec.NonTrivial("hdrwords", hw.W)
		rec.ReportSeq(t, "header-words", hw, func() *vk.Violation { return checkHeaderWords(hw) })
		c := HdrCase{Proto: rapid.SampledFrom([]string{"cmpp", "smgp"}).Draw(t, "proto"), ErrEOF: rapid.Bool().Draw(t, "eof")}
		n := rapid.OneOf(rapid.IntRange(12, 30), rapid.IntRange(0, 30)).Draw(t, "len")
		c.Data = vk.Hex(rapid.SliceOfN(rapid.Byte(), n, n).Draw(t, "data"))
		switch rapid.IntRange(0, 4).Draw(t, "chunking") {
		case 0: // all at once
		case 1:
			c.Pieces = []int{1, 1, 1, 1, 1, 1, 1, 1, 1, 1, 1, 1, 1}
		case 2:
			c.Pieces = []int{4, 4, 4}
		case 3:
			c.Pieces = []int{6, 3, 2, 1}
		default:
			c.Pieces = rapid.SliceOfN(rapid.IntRange(1, 7), 0, 12).Draw(t, "pieces")
		}
		rec.Eval()
		if n >= 12 && len(c.Pieces) > 2 {
			rec.NonTrivial("hdr", c.Proto, c.Data, fmt.Sprint(c.Pieces), c.ErrEOF)
			rec.Class("header_from_stream_in_3+_pieces")
		}
		rec.Sample("header-reader", c)
		rec.Report(t, "header-reader", checkHeaderReader(c))
	})
}

func TestLayoutPerType(t *testing.T) {
	for _, b := range gen.Bindings {
		b := b
		var prev *ref.Vals
		t.Run(b.Spec.ID(), rapid.MakeCheck(func(t *rapid.T) {
			v := gen.DrawVals(t, b, gen.Opts{BigBodies: true, BigTails: true})
			eval(t, b, v)
			// one PDU value used for two messages: the previous case's contents first, then this one's
			if prev != nil {
				rec.Eval()
				rec.Class("value_reused_for_a_second_message")
				if viol := gen.LayoutEncodeReused(b, prev, v); viol != nil {
					viol.Case = ReusedCase{First: gen.PCase{Vals: ref.ToJ(b.Spec, prev)}, Then: gen.PCase{Vals: ref.ToJ(b.Spec, v)}}
					rec.Report(t, "layout-reused", viol)
				}
			}
			prev = v
		}))
	}
}

// ReusedCase: the two messages one PDU value was used for.
type ReusedCase struct {
	First gen.PCase `json:"first"`
	Then  gen.PCase `json:"then"`
}

func init() {
	reg["layout-reused"] = func(raw json.RawMessage) *vk.Violation {
		var c ReusedCase
		_ = json.Unmarshal(raw, &c)
		s1, v1 := ref.FromJ(c.First.Vals)
		_, v2 := ref.FromJ(c.Then.Vals)
		return gen.LayoutEncodeReused(gen.ByID(s1.ID()), v1, v2)
	}
}

// TestGrid enumerates, for every type with a destination list and/or a body,
// every destination count 0..255 and every body length 0..255: the two axes
// separately in the quick tier, the full 256 x 256 grid in the thorough tier
// (index-partitioned over the shards). Other fields are derived from the index.
func TestGrid(t *testing.T) {
	env := rec.Env()
	idx := 0
	for _, b := range gen.Bindings {
		s := b.Spec
		var cf, lf *ref.Field
		for i := range s.Fields {
			switch s.Fields[i].Kind {
			case ref.Count8:
				cf = &s.Fields[i]
			case ref.Len8, ref.Len32:
				lf = &s.Fields[i]
			}
		}
		if cf == nil && lf == nil {
			continue
		}
		do := func(count, blen int) {
			idx++
			if !env.Mine(idx) {
				return
			}
			v := gen.SeedVals(b, uint64(idx)*7919+uint64(env.Seed), count, blen)
			rec.NonTrivialConstructed(1)
			rec.Class("grid")
			eval(t, b, v)
		}
		if env.Thorough() && cf != nil && lf != nil {
			for c := 0; c < 256; c++ {
				for l := 0; l < 256; l++ {
					do(c, l)
				}
			}
			rec.Exhaustive("destination count 0..255 x body length 0..255 for " + s.ID())
			continue
		}
		if cf != nil {
			for c := 0; c < 256; c++ {
				do(c, 3)
			}
			rec.Exhaustive("destination count 0..255 for " + s.ID())
		}
		if lf != nil {
			for l := 0; l < 256; l++ {
				do(2, l)
			}
			rec.Exhaustive("body length 0..255 for " + s.ID())
		}
		if cf != nil && lf != nil {
			// the two axes TOGETHER (length arithmetic is about sums and products of both): the diagonals, the
			// corners and a pseudo-random sample of the 256 x 256 grid that the thorough tier enumerates completely
			sm := vk.SplitMix(uint64(env.Seed)*977 + 13)
			for i := 0; i < 256; i++ {
				do(i, i)
				do(i, 255-i)
				do(255, i)
				do(i, 255)
			}
			for i := 0; i < 1500; i++ {
				do(sm.Intn(256), sm.Intn(256))
			}
			rec.Class("grid_both_axes")
		}
		if lf != nil && lf.Kind == ref.Len8 {
			// bodies of very low entropy (all octets 0 or 1) in which ONE octet takes every value: what a decoder
			// that sniffs the body for the layout of another protocol version, a header or a length would key on
			for _, l := range []int{24, 40, 64, 140} {
				for pos := 0; pos < 16 && pos < l; pos++ {
					for val := 0; val < 256; val++ {
						idx++
						if !env.Mine(idx) {
							continue
						}
						v := gen.SeedVals(b, uint64(l*7+pos), 1, l)
						body := make([]byte, l)
						for i := range body {
							body[i] = byte((i*5 + pos) & 1)
						}
						body[pos] = byte(val)
						for _, f := range s.Fields {
							if f.Kind == ref.Body {
								v.F[f.Name] = body
							}
						}
						rec.NonTrivialConstructed(1)
						rec.EvalN(1)
						if viol := gen.LayoutDecode(b, v); viol != nil {
							rec.Report(t, "layout-decode", viol)
						}
					}
				}
			}
			rec.Class("low_entropy_body_with_one_swept_octet")
		}
	}
}
