// C02 — encoded bytes are exactly the layout the protocol specifications prescribe,
// and specification-conformant images decode to the values they carry.
package c02

import (
	"encoding/json"
	"os"
	"testing"

	"pgregory.net/rapid"

	"verifharness/gen"
	"verifharness/ref"
	"verifharness/vk"
)

var rec = vk.NewRecorder("C02")

func TestMain(m *testing.M) {
	code := m.Run()
	rec.Flush("all")
	os.Exit(code)
}

func fromCase(raw json.RawMessage) (*gen.Binding, *ref.Vals, *vk.Violation) {
	var c gen.PCase
	_ = json.Unmarshal(raw, &c)
	s, v := ref.FromJ(c.Vals)
	if s == nil {
		return nil, nil, vk.Violf("", c, "unknown spec %s", c.Vals.Spec)
	}
	return gen.ByID(s.ID()), v, nil
}

var reg = vk.Registry{
	"layout-encode": func(raw json.RawMessage) *vk.Violation {
		b, v, e := fromCase(raw)
		if e != nil {
			return e
		}
		return gen.LayoutEncode(b, v)
	},
	"layout-decode": func(raw json.RawMessage) *vk.Violation {
		b, v, e := fromCase(raw)
		if e != nil {
			return e
		}
		return gen.LayoutDecode(b, v)
	},
}

func init() { reg["sequence"] = vk.SequenceReplayer(reg) }

func TestReplay(t *testing.T) { vk.RunReplay(t, reg) }

func TestSelf(t *testing.T) {
	if p := gen.CoverageSelfTest(); len(p) > 0 {
		t.Fatalf("HARNESS-INTEGRITY: the field tables do not cover the library's structs:\n%v", p)
	}
	rec.RunProbes(t, reg)
	rec.RunRegress(t, reg)
}

func eval(t vk.TB, b *gen.Binding, v *ref.Vals) {
	rec.EvalN(2)
	if gen.NonTrivial(b.Spec, v) {
		rec.NonTrivial(b.Spec.ID(), ref.Encode(b.Spec, v))
	}
	rec.Class("type:" + b.Spec.ID())
	for _, f := range b.Spec.Fields {
		if f.Kind == ref.Count8 && v.U(f.Name) >= 13 {
			rec.Class("count>=13")
		}
	}
	rec.Sample(b.Spec.Proto, ref.ToJ(b.Spec, v))
	rec.ReportSeq(t, "layout-encode", gen.PCase{Vals: ref.ToJ(b.Spec, v)}, func() *vk.Violation { return gen.LayoutEncode(b, v) })
	rec.ReportSeq(t, "layout-decode", gen.PCase{Vals: ref.ToJ(b.Spec, v)}, func() *vk.Violation { return gen.LayoutDecode(b, v) })
}

func TestLayoutPerType(t *testing.T) {
	for _, b := range gen.Bindings {
		b := b
		t.Run(b.Spec.ID(), rapid.MakeCheck(func(t *rapid.T) {
			eval(t, b, gen.DrawVals(t, b, gen.Opts{BigBodies: true, BigTails: true}))
		}))
	}
}

// TestGrid enumerates, for every type with a destination list and/or a body,
// every destination count 0..255 and every body length 0..255: the two axes
// separately in the quick tier, the full 256 x 256 grid in the thorough tier
// (index-partitioned over the shards). Other fields are derived from the index.
func TestGrid(t *testing.T) {
	env := rec.Env()
	idx := 0
	for _, b := range gen.Bindings {
		s := b.Spec
		var cf, lf *ref.Field
		for i := range s.Fields {
			switch s.Fields[i].Kind {
			case ref.Count8:
				cf = &s.Fields[i]
			case ref.Len8, ref.Len32:
				lf = &s.Fields[i]
			}
		}
		if cf == nil && lf == nil {
			continue
		}
		do := func(count, blen int) {
			idx++
			if !env.Mine(idx) {
				return
			}
			v := gen.SeedVals(b, uint64(idx)*7919+uint64(env.Seed), count, blen)
			rec.NonTrivialConstructed(1)
			rec.Class("grid")
			eval(t, b, v)
		}
		if env.Thorough() && cf != nil && lf != nil {
			for c := 0; c < 256; c++ {
				for l := 0; l < 256; l++ {
					do(c, l)
				}
			}
			rec.Exhaustive("destination count 0..255 x body length 0..255 for " + s.ID())
			continue
		}
		if cf != nil {
			for c := 0; c < 256; c++ {
				do(c, 3)
			}
			rec.Exhaustive("destination count 0..255 for " + s.ID())
		}
		if lf != nil {
			for l := 0; l < 256; l++ {
				do(2, l)
			}
			rec.Exhaustive("body length 0..255 for " + s.ID())
		}
	}
}
