// C04 — stream framing returns exactly the frames sent, under any arrival pattern.
package c04

import (
	"bytes"
	"encoding/binary"
	"encoding/json"
	"errors"
	"fmt"
	"io"
	"os"
	"sort"
	"testing"
	"time"

	"github.com/hujm2023/go-sms-protocol/codec"
	"pgregory.net/rapid"

	"verifharness/gen"
	"verifharness/vk"
)

var rec = vk.NewRecorder("C04")

func TestMain(m *testing.M) {
	vk.Disturb = gen.Disturb
	code := m.Run()
	rec.Flush("all")
	os.Exit(code)
}

// conn is the model connection: bytes become visible chunk by chunk.
type conn struct {
	buf       []byte // arrived, not yet consumed
	pending   [][]byte
	nilShort  bool // Peek(n) beyond the buffered bytes returns (nil, err) instead of (short prefix, err)
	failAt    int  // for Read: inject an error after this many octets have been delivered (-1: never)
	failErr   error
	transient bool // the injected error is returned once, later reads succeed again
	failed    bool
	dataErr   bool // the last octets of the stream are returned TOGETHER with io.EOF (allowed by io.Reader)
	readSoFar int
	// seg: sizes of the arrival segments still (partly) buffered - non-blocking side only. A reader built on a
	// chain of network buffers sees all of them through Peek / Size / Discard, but one Read call hands out at
	// most the rest of the first segment (io.Reader allows fewer octets than asked for).
	seg []int
}

func (c *conn) consumeSeg(n int) {
	for n > 0 && len(c.seg) > 0 {
		if c.seg[0] > n {
			c.seg[0] -= n
			return
		}
		n -= c.seg[0]
		c.seg = c.seg[1:]
	}
}

// timeoutErr is a net.Error-style timeout (what a read deadline produces).
type timeoutErr struct{}

func (timeoutErr) Error() string        { return "model: i/o timeout" }
func (timeoutErr) Timeout() bool        { return true }
func (timeoutErr) Temporary() bool      { return true }
func (timeoutErr) Is(target error) bool { return target == os.ErrDeadlineExceeded }

var errShort = errors.New("model: short peek")
var errInjected = errors.New("model: injected read error")

func (c *conn) Peek(n int) ([]byte, error) {
	if n <= len(c.buf) {
		return c.buf[:n:n], nil
	}
	if c.nilShort {
		return nil, errShort
	}
	return c.buf[:len(c.buf):len(c.buf)], errShort
}
func (c *conn) Discard(n int) (int, error) {
	if n < 0 || n > len(c.buf) {
		d := len(c.buf)
		c.buf = c.buf[d:]
		return d, errShort
	}
	c.buf = c.buf[n:]
	c.consumeSeg(n)
	return n, nil
}
func (c *conn) Size() int { return len(c.buf) }

// Read is the blocking side: one pending chunk per call, then EOF (or the injected error).
func (c *conn) Read(p []byte) (int, error) {
	if len(c.buf) == 0 {
		if len(c.pending) == 0 {
			return 0, io.EOF
		}
		c.buf, c.pending = c.pending[0], c.pending[1:]
	}
	armed := c.failAt >= 0 && !(c.transient && c.failed)
	if armed && c.readSoFar >= c.failAt {
		c.failed = true
		return 0, c.failErr
	}
	avail := c.buf
	if len(c.seg) > 0 && c.seg[0] < len(avail) {
		avail = avail[:c.seg[0]]
	}
	n := copy(p, avail)
	if armed && c.readSoFar+n > c.failAt {
		n = c.failAt - c.readSoFar
	}
	c.buf = c.buf[n:]
	c.consumeSeg(n)
	c.readSoFar += n
	if c.dataErr && len(c.buf) == 0 && len(c.pending) == 0 && n > 0 {
		return n, io.EOF
	}
	return n, nil
}

type Case struct {
	Codec     string   `json:"codec"`  // "cmpp" | "smpp"
	Mode      string   `json:"mode"`   // "nonblocking" | "blocking"
	Frames    []string `json:"frames"` // hex of each complete frame (prefix included)
	Tail      string   `json:"tail"`   // hex: extra octets after the frames (a truncated frame or a malformed prefix)
	Cuts      []int    `json:"cuts"`   // offsets at which the stream is cut into arrival chunks
	NilShort  bool     `json:"nil_short"`
	FailAt    int      `json:"fail_at"`                 // blocking: inject a read error at this stream offset (-1 none)
	FailKind  string   `json:"fail_kind,omitempty"`     // "" plain error | "timeout" (net.Error timeout, os.ErrDeadlineExceeded) | "eof" (io.ErrUnexpectedEOF)
	Transient bool     `json:"transient,omitempty"`     // the injected error occurs once; the stream continues afterwards
	DataErr   bool     `json:"data_with_eof,omitempty"` // blocking: the final octets arrive together with io.EOF in one Read
	// Prelude: octets of ANOTHER connection on which the same codec value is used first and which is left
	// with an incomplete frame (codec values are stateless by contract and may be shared between connections).
	Prelude string `json:"prelude,omitempty"`
	// PreludeFailAt >= 0: the other connection is served by the BLOCKING extractor and fails (FailKind) at
	// this offset - e.g. a read deadline expiring inside a length prefix - and is then abandoned.
	PreludeFailAt int  `json:"prelude_fail_at,omitempty"`
	PreludeBlock  bool `json:"prelude_blocking,omitempty"`
}

func (c Case) failErr() error {
	switch c.FailKind {
	case "timeout":
		return timeoutErr{}
	case "eof":
		return io.ErrUnexpectedEOF
	}
	return errInjected
}

func (c Case) stream() ([]byte, [][]byte) {
	var s []byte
	var fr [][]byte
	for _, f := range c.Frames {
		b := vk.UnHex(f)
		fr = append(fr, b)
		s = append(s, b...)
	}
	s = append(s, vk.UnHex(c.Tail)...)
	return s, fr
}

func (c Case) chunks(s []byte) [][]byte {
	cuts := append([]int{}, c.Cuts...)
	sort.Ints(cuts)
	var out [][]byte
	prev := 0
	for _, k := range cuts {
		if k <= prev || k >= len(s) {
			continue
		}
		out = append(out, s[prev:k])
		prev = k
	}
	out = append(out, s[prev:])
	return out
}

func newCodec(name string) codec.Codec {
	switch name {
	case "smpp":
		return codec.NewSMPPCodec()
	case "smpp-zero":
		return new(codec.SMPPCodec) // the types are exported and have no fields: a zero value is a codec too
	case "cmpp-zero":
		return new(codec.CMPPCodec)
	}
	return codec.NewCMPPCodec()
}

func check(c Case) *vk.Violation {
	var v *vk.Violation
	if pn := vk.Guarded("framing", c.Codec+"/"+c.Mode+"/hang", func() any { return c }, func() { v = run(c) }); pn != "" {
		return vk.Violf(c.Codec+"/"+c.Mode+"/panic", c, "%s %s extractor panicked\n%s", c.Codec, c.Mode, pn)
	}
	return v
}

func malformedTail(tail []byte) bool {
	return len(tail) >= 4 && binary.BigEndian.Uint32(tail) < 4
}

func run(c Case) *vk.Violation {
	s, frames := c.stream()
	tail := vk.UnHex(c.Tail)
	cd := newCodec(c.Codec)
	k := c.Codec + "/" + c.Mode
	if c.Prelude != "" {
		// the same codec value first serves another connection, which stays in the middle of a frame
		if c.PreludeBlock {
			pre := &conn{pending: [][]byte{vk.UnHex(c.Prelude)}, failAt: c.PreludeFailAt, failErr: c.failErr()}
			for i := 0; i < 4; i++ {
				if _, err := cd.DecodeBlocked(pre); err != nil {
					break
				}
			}
		} else {
			pre := &conn{buf: vk.UnHex(c.Prelude), failAt: -1, nilShort: c.NilShort}
			for i := 0; i < 4; i++ {
				if _, err := cd.Decode(pre); err != nil {
					break
				}
			}
		}
		k += "/after-other-connection"
	}
	if c.Mode == "nonblocking" {
		cn := &conn{nilShort: c.NilShort, failAt: -1}
		next := 0
		arrived := 0
		for ci, ch := range c.chunks(s) {
			cn.buf = append(append([]byte{}, cn.buf...), ch...) // the network layer refills its buffer (old views die)
			cn.seg = append(cn.seg, len(ch))
			arrived += len(ch)
			for iter := 0; ; iter++ {
				if iter > len(frames)+2 {
					return vk.Violf(k+"/no-progress", c, "Decode keeps succeeding without the stream advancing (chunk %d)", ci)
				}
				before := cn.Size()
				f, err := cd.Decode(cn)
				if err != nil {
					if f != nil {
						return vk.Violf(k+"/frame-with-error", c, "Decode returned both a frame and error %v", err)
					}
					if errors.Is(err, codec.ErrPacketNotComplete) {
						if cn.Size() != before {
							return vk.Violf(k+"/incomplete-consumed", c, "Decode reported 'incomplete' but consumed %d octets", before-cn.Size())
						}
						// is the next frame really incomplete?
						consumed := 0
						for _, fr := range frames[:next] {
							consumed += len(fr)
						}
						if next < len(frames) && arrived-consumed >= len(frames[next]) {
							return vk.Violf(k+"/complete-frame-not-returned", c, "frame %d (%d octets) has fully arrived (%d buffered) but Decode reports 'incomplete'", next, len(frames[next]), cn.Size())
						}
						if next == len(frames) && malformedTail(tail) && arrived-consumed >= 4 {
							return vk.Violf(k+"/malformed-prefix-reported-incomplete", c, "length prefix %d (< 4) has arrived but Decode reports 'incomplete' instead of refusing it", binary.BigEndian.Uint32(tail))
						}
						break
					}
					// another error: only legitimate for a malformed prefix
					if next == len(frames) && malformedTail(tail) {
						break
					}
					return vk.Violf(k+"/unexpected-error", c, "Decode failed with %v at frame %d although the stream is well-formed there", err, next)
				}
				if f == nil {
					return vk.Violf(k+"/nil-nil", c, "Decode returned (nil, nil)")
				}
				if next >= len(frames) {
					return vk.Violf(k+"/frame-from-malformed-or-partial-data", c, "Decode returned a %d-octet frame %x although only %d complete frames were sent (tail %x)", len(f), clip(f), len(frames), clip(tail))
				}
				if !bytes.Equal(f, frames[next]) {
					return vk.Violf(k+"/frame-content", c, "frame %d differs: got %d octets %x, sent %d octets %x", next, len(f), clip(f), len(frames[next]), clip(frames[next]))
				}
				if before-cn.Size() != len(frames[next]) {
					return vk.Violf(k+"/consumed", c, "frame %d has %d octets but %d were consumed", next, len(frames[next]), before-cn.Size())
				}
				next++
			}
		}
		if next != len(frames) {
			return vk.Violf(k+"/frames-missing", c, "%d frames sent, %d delivered after the whole stream arrived", len(frames), next)
		}
		if !malformedTail(tail) && cn.Size() != len(tail) {
			return vk.Violf(k+"/leftover", c, "%d octets left in the connection, expected %d (the incomplete tail)", cn.Size(), len(tail))
		}
		return nil
	}
	// blocking
	cn := &conn{pending: c.chunks(s), failAt: c.FailAt, failErr: c.failErr(), transient: c.Transient, dataErr: c.DataErr}
	off := 0
	for i := 0; i <= len(frames); i++ {
		f, err := cd.DecodeBlocked(cn)
		complete := i < len(frames) && (c.FailAt < 0 || c.FailAt >= off+len(frames[i]) || (c.Transient && c.FailAt < off))
		if complete {
			if err != nil {
				return vk.Violf(k+"/unexpected-error", c, "DecodeBlocked call %d failed with %v although frame %d is completely readable", i, err, i)
			}
			if !bytes.Equal(f, frames[i]) {
				return vk.Violf(k+"/frame-content", c, "blocking frame %d differs: got %d octets %x, sent %d octets %x", i, len(f), clip(f), len(frames[i]), clip(frames[i]))
			}
			off += len(frames[i])
			continue
		}
		// the stream ends, fails or turns malformed inside this frame: an error, never a (partial) frame
		if err == nil || f != nil {
			return vk.Violf(k+"/partial-frame", c, "DecodeBlocked call %d returned (%d octets %x, %v) although the stream ends/fails/is malformed at offset %d", i, len(f), clip(f), err, off)
		}
		break
	}
	if c.FailAt < 0 && len(tail) == 0 {
		rest, _ := io.ReadAll(cn)
		if len(rest) != 0 {
			return vk.Violf(k+"/consumed", c, "after all frames %d octets remain unread", len(rest))
		}
	}
	return nil
}

func clip(b []byte) []byte {
	if len(b) > 24 {
		return b[:24]
	}
	return b
}

var reg = vk.Registry{"framing": func(raw json.RawMessage) *vk.Violation {
	var c Case
	_ = json.Unmarshal(raw, &c)
	return check(c)
}}

func init() { reg["sequence"] = vk.SequenceReplayer(reg) }

func TestReplay(t *testing.T) { vk.RunReplay(t, reg) }

func frameOf(body []byte) []byte {
	f := make([]byte, 4+len(body))
	binary.BigEndian.PutUint32(f, uint32(len(f)))
	copy(f[4:], body)
	return f
}

// command ids of SMPP 3.4, CMPP, SGIP and SMGP (requests; the response bit is drawn)
var commandIDs = []uint32{0x01, 0x02, 0x03, 0x04, 0x05, 0x06, 0x07, 0x08, 0x09, 0x0b, 0x15, 0x21, 0x102, 0x103, 0x10, 0x11, 0x1000, 0}

var bodyGen = rapid.Custom(func(t *rapid.T) []byte {
	var n int
	switch rapid.IntRange(0, 19).Draw(t, "sizeclass") {
	case 0:
		n = 0
	case 1:
		n = rapid.SampledFrom([]int{1, 8, 12, 16, 2048, 65532 - 4, 65536 - 4}).Draw(t, "edge")
	case 2:
		n = rapid.IntRange(0, 65532).Draw(t, "big")
	default:
		n = rapid.IntRange(0, 60).Draw(t, "small")
	}
	if rapid.IntRange(0, 3).Draw(t, "pdulike") == 0 {
		// what the stream really carries: PDU headers. The body begins with a command id of one of the
		// protocols (status / sequence words follow), whatever the frame's length is - a frame is delimited
		// by its prefix alone, never by what its command usually weighs.
		id := rapid.SampledFrom(commandIDs).Draw(t, "cmdid")
		if rapid.Bool().Draw(t, "resp") {
			id |= 0x80000000
		}
		n = rapid.SampledFrom([]int{4, 8, 12, 13, 16, 17, 20, 29, 40, 200}).Draw(t, "pdulen")
		b := make([]byte, n)
		sm := vk.SplitMix(rapid.Uint64().Draw(t, "pseed"))
		for i := range b {
			b[i] = byte(sm.Next())
		}
		binary.BigEndian.PutUint32(b, id)
		return b
	}
	var b []byte
	if n <= 60 {
		// octets that look like length prefixes
		b = rapid.SliceOfN(rapid.OneOf(rapid.Byte(), rapid.SampledFrom([]byte{0, 0, 0, 4, 5, 12, 16})), n, n).Draw(t, "body")
	} else {
		sm := vk.SplitMix(rapid.Uint64().Draw(t, "seed"))
		b = make([]byte, n)
		for i := range b {
			b[i] = byte(sm.Next())
		}
	}
	return b
})

func drawCase(t *rapid.T) Case {
	c := Case{Codec: rapid.SampledFrom([]string{"cmpp", "smpp", "cmpp", "smpp", "cmpp-zero", "smpp-zero"}).Draw(t, "codec"), Mode: rapid.SampledFrom([]string{"nonblocking", "blocking"}).Draw(t, "mode"),
		NilShort: rapid.Bool().Draw(t, "nilshort"), FailAt: -1}
	n := rapid.IntRange(1, 12).Draw(t, "nframes")
	total := 0
	var starts []int
	for i := 0; i < n; i++ {
		f := frameOf(bodyGen.Draw(t, fmt.Sprintf("f%d", i)))
		starts = append(starts, total)
		total += len(f)
		c.Frames = append(c.Frames, vk.Hex(f))
	}
	switch rapid.IntRange(0, 5).Draw(t, "tailclass") {
	case 0: // truncated frame
		f := frameOf(bodyGen.Draw(t, "tailframe"))
		c.Tail = vk.Hex(f[:rapid.IntRange(1, len(f)-1).Draw(t, "tailcut")])
	case 1: // malformed prefix 0..3 followed by some octets
		p := make([]byte, 4)
		binary.BigEndian.PutUint32(p, uint32(rapid.IntRange(0, 3).Draw(t, "badprefix")))
		c.Tail = vk.Hex(append(p, rapid.SliceOfN(rapid.Byte(), 0, 8).Draw(t, "afterbad")...))
	}
	total += len(c.Tail) / 2
	// cuts: forced inside a prefix (offsets 1,2,3 of a frame) and inside a body, plus random ones
	nc := rapid.IntRange(0, 10).Draw(t, "ncuts")
	for i := 0; i < nc && total > 1; i++ {
		switch rapid.IntRange(0, 2).Draw(t, "cutclass") {
		case 0:
			c.Cuts = append(c.Cuts, starts[rapid.IntRange(0, len(starts)-1).Draw(t, "cf")]+rapid.IntRange(1, 3).Draw(t, "co"))
		default:
			c.Cuts = append(c.Cuts, rapid.IntRange(1, total-1).Draw(t, "cut"))
		}
	}
	if c.Mode == "blocking" && rapid.IntRange(0, 2).Draw(t, "inject") == 0 {
		c.FailAt = rapid.IntRange(0, total).Draw(t, "failat")
		c.FailKind = rapid.SampledFrom([]string{"", "timeout", "eof"}).Draw(t, "failkind")
		c.Transient = rapid.Bool().Draw(t, "transient")
	}
	if c.Mode == "blocking" && c.FailAt < 0 {
		c.DataErr = rapid.Bool().Draw(t, "datawitheof")
	}
	if rapid.IntRange(0, 3).Draw(t, "prelude") == 0 {
		// another connection served by the same codec value, left inside a frame
		f := frameOf(bodyGen.Draw(t, "preludeframe"))
		done := frameOf(bodyGen.Draw(t, "preludedone"))
		cut := rapid.IntRange(4, len(f)).Draw(t, "preludecut")
		if cut == len(f) {
			cut = len(f) - 1
		}
		if cut >= 4 {
			c.Prelude = vk.Hex(append(append([]byte{}, done...), f[:cut]...))
		}
		if rapid.Bool().Draw(t, "preludeblocking") {
			// the blocking extractor on the other connection, failing at a drawn offset - inside the second
			// frame's prefix (1..3 octets of it consumed), at its start, or inside its body
			c.PreludeBlock = true
			c.PreludeFailAt = len(done) + rapid.SampledFrom([]int{0, 1, 2, 3, 4, 5}).Draw(t, "preludefailoff")
			if c.FailKind == "" {
				c.FailKind = rapid.SampledFrom([]string{"", "timeout", "timeout", "eof"}).Draw(t, "preludefailkind")
			}
		}
	}
	return c
}

func nontrivial(c Case) bool {
	s, frames := c.stream()
	if c.Tail != "" || c.FailAt >= 0 || c.Prelude != "" {
		return true
	}
	if len(frames) < 2 {
		return false
	}
	starts := map[int]bool{}
	o := 0
	for _, f := range frames {
		starts[o] = true
		o += len(f)
	}
	for _, k := range c.Cuts {
		if k > 0 && k < len(s) && !starts[k] {
			return true
		}
	}
	return false
}

func eval(t vk.TB, c Case, constructed bool) {
	rec.Eval()
	if nontrivial(c) {
		if constructed {
			rec.NonTrivialConstructed(1)
		} else {
			rec.NonTrivial(c.Codec, c.Mode, fmt.Sprint(c.Frames), c.Tail, fmt.Sprint(c.Cuts), c.FailAt, c.NilShort, c.FailKind, c.Transient, c.Prelude, c.DataErr, c.PreludeBlock, c.PreludeFailAt)
		}
		rec.Class("nontrivial:" + c.Mode)
	}
	if c.Tail != "" {
		if malformedTail(vk.UnHex(c.Tail)) {
			rec.Class("malformed_prefix")
		} else {
			rec.Class("truncated_tail")
		}
	}
	if c.FailAt >= 0 {
		rec.Class("injected_read_error:" + c.FailKind)
		if c.Transient {
			rec.Class("injected_read_error_transient")
		}
	}
	if c.Prelude != "" {
		rec.Class("codec_value_shared_with_another_connection")
		if c.PreludeBlock {
			rec.Class("other_connection_failed_in_blocking_extractor:" + c.FailKind)
		}
	}
	if c.DataErr {
		rec.Class("final_octets_returned_together_with_EOF")
	}
	if s, _ := c.stream(); len(s) <= 80 {
		rec.Sample(c.Mode, c)
	}
	rec.ReportSeq(t, "framing", c, func() *vk.Violation { return check(c) })
}

func TestRandomStreams(t *testing.T) {
	rec.RunProbes(t, reg)
	rec.RunRegress(t, reg)
	rapid.Check(t, func(t *rapid.T) { eval(t, drawCase(t), false) })
}

// TestEverySingleCut: for short streams, every single cut position, both codecs,
// both modes, both Peek conventions; every truncation point and every injected
// error offset for the blocking side; every malformed prefix 0..3 at the head
// of the stream and after k good frames.
func TestEverySingleCut(t *testing.T) {
	env := rec.Env()
	nstreams := env.Pick(40, 400)
	idx := 0
	for si := 0; si < nstreams; si++ {
		if !env.Mine(si) {
			continue
		}
		sm := vk.SplitMix(uint64(si)*977 + uint64(env.Seed))
		var frames []string
		total := 0
		for total < 40+sm.Intn(200) {
			n := sm.Intn(24)
			b := make([]byte, n)
			for i := range b {
				if sm.Intn(3) == 0 {
					b[i] = []byte{0, 0, 0, 4, 8}[sm.Intn(5)]
				} else {
					b[i] = byte(sm.Next())
				}
			}
			f := frameOf(b)
			frames = append(frames, vk.Hex(f))
			total += len(f)
		}
		for _, cdc := range []string{"cmpp", "smpp", "cmpp-zero", "smpp-zero"} {
			for cut := 1; cut < total; cut++ {
				idx++
				eval(t, Case{Codec: cdc, Mode: "nonblocking", Frames: frames, Cuts: []int{cut}, NilShort: cut%2 == 0, FailAt: -1}, true)
				eval(t, Case{Codec: cdc, Mode: "blocking", Frames: frames, Cuts: []int{cut}, FailAt: -1}, true)
				eval(t, Case{Codec: cdc, Mode: "blocking", Frames: frames, Cuts: []int{cut}, FailAt: -1, DataErr: true}, true)
				eval(t, Case{Codec: cdc, Mode: "blocking", Frames: frames, Cuts: []int{total / 2}, FailAt: cut}, true)
				eval(t, Case{Codec: cdc, Mode: "blocking", Frames: frames, Cuts: []int{total / 3}, FailAt: cut, FailKind: "timeout", Transient: true}, true)
				if cut%7 == 0 {
					eval(t, Case{Codec: cdc, Mode: "blocking", Frames: frames, Cuts: []int{cut}, FailAt: cut, FailKind: "eof"}, true)
					pre := append([]byte{0, 0, 0, byte(20 + cut%50)}, vk.UnHex(frames[0])...)
					eval(t, Case{Codec: cdc, Mode: "nonblocking", Frames: frames, Cuts: []int{cut}, FailAt: -1, Prelude: vk.Hex(pre[:4+cut%(len(pre)-4+1)])}, true)
				}
			}
			for bad := 0; bad < 4; bad++ {
				p := make([]byte, 4)
				binary.BigEndian.PutUint32(p, uint32(bad))
				for k := 0; k <= len(frames); k += 1 + len(frames)/3 {
					for _, mode := range []string{"nonblocking", "blocking"} {
						eval(t, Case{Codec: cdc, Mode: mode, Frames: frames[:k], Tail: vk.Hex(append(p, 1, 2, 3)), Cuts: []int{3}, FailAt: -1}, true)
						eval(t, Case{Codec: cdc, Mode: mode, Frames: frames[:k], Tail: vk.Hex(p), FailAt: -1}, true)
					}
				}
			}
		}
	}
	rec.Exhaustive(fmt.Sprintf("every single cut position, every truncation/injected-error offset and every malformed prefix 0..3 for %d short streams x 2 codecs", nstreams))
	_ = idx
}

// gated is a blocking reader whose Read calls can be held back: it lets a test place the prefix read of
// one connection between the prefix read and the body read of another.
type gated struct {
	data  []byte
	reads int
	gate  map[int]chan struct{} // Read number -> wait for this before serving it
	done  map[int]chan struct{} // Read number -> closed after serving it
}

func (g *gated) Read(p []byte) (int, error) {
	g.reads++
	if ch, ok := g.gate[g.reads]; ok {
		<-ch
	}
	if len(g.data) == 0 {
		return 0, io.EOF
	}
	n := copy(p, g.data)
	g.data = g.data[n:]
	if ch, ok := g.done[g.reads]; ok {
		close(ch)
	}
	return n, nil
}
func (g *gated) Peek(n int) ([]byte, error) { return nil, errShort }
func (g *gated) Discard(n int) (int, error) { return 0, errShort }
func (g *gated) Size() int                  { return 0 }

type ConcCase struct {
	Codec string `json:"codec"`
	A     string `json:"frame_a"` // hex
	B     string `json:"frame_b"`
}

// checkConcurrent: one codec value serves two connections from two goroutines (codec values carry no
// per-connection state by contract). Connection A has delivered its prefix and waits for its body while
// connection B's frame is extracted completely; both must come back exactly as sent.
func checkConcurrent(c ConcCase) *vk.Violation {
	fa, fb := vk.UnHex(c.A), vk.UnHex(c.B)
	cd := newCodec(c.Codec)
	aPrefixDone, bDone := make(chan struct{}), make(chan struct{})
	ra := &gated{data: append([]byte{}, fa...), gate: map[int]chan struct{}{2: bDone}, done: map[int]chan struct{}{1: aPrefixDone}}
	rb := &gated{data: append([]byte{}, fb...), gate: map[int]chan struct{}{1: aPrefixDone}}
	var ga, gb []byte
	var ea, eb error
	fin := make(chan struct{}, 2)
	var v *vk.Violation
	pn := vk.Guarded("concurrent", c.Codec+"/concurrent/hang", func() any { return c }, func() {
		go func() { ga, ea = cd.DecodeBlocked(ra); fin <- struct{}{} }()
		go func() { gb, eb = cd.DecodeBlocked(rb); close(bDone); fin <- struct{}{} }()
		for i := 0; i < 2; i++ {
			select {
			case <-fin:
			case <-time.After(8 * time.Second):
				v = vk.Violf(c.Codec+"/concurrent/stuck", c, "two DecodeBlocked calls on one codec value did not finish")
				return
			}
		}
	})
	if pn != "" {
		return vk.Violf(c.Codec+"/concurrent/panic", c, "panic\n%s", pn)
	}
	if v != nil {
		return v
	}
	if ea != nil || eb != nil {
		return vk.Violf(c.Codec+"/concurrent/error", c, "errors %v / %v on complete frames", ea, eb)
	}
	if !bytes.Equal(ga, fa) || !bytes.Equal(gb, fb) {
		return vk.Violf(c.Codec+"/concurrent/frame-content", c, "one codec value, two connections: connection A got %x (sent %x), connection B got %x (sent %x)", clip(ga), clip(fa), clip(gb), clip(fb))
	}
	return nil
}

func init() {
	reg["concurrent"] = func(raw json.RawMessage) *vk.Violation {
		var c ConcCase
		_ = json.Unmarshal(raw, &c)
		return checkConcurrent(c)
	}
}

func TestSharedCodecTwoConnections(t *testing.T) {
	rapid.Check(t, func(t *rapid.T) {
		c := ConcCase{Codec: rapid.SampledFrom([]string{"cmpp", "smpp"}).Draw(t, "codec"),
			A: vk.Hex(frameOf(rapid.SliceOfN(rapid.Byte(), 1, 40).Draw(t, "a"))), B: vk.Hex(frameOf(rapid.SliceOfN(rapid.Byte(), 0, 40).Draw(t, "b")))}
		rec.Eval()
		rec.NonTrivial("conc", c.Codec, c.A, c.B)
		rec.Class("one_codec_value_two_goroutines")
		rec.Sample("concurrent", c)
		rec.Report(t, "concurrent", checkConcurrent(c))
	})
}
