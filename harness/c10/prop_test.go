// C10 — responses pair with their requests and dispatch is consistent with encoding.
package c10

import (
	"encoding/binary"
	"encoding/json"
	"errors"
	"fmt"
	"os"
	"reflect"
	"testing"

	sms "github.com/hujm2023/go-sms-protocol"
	"github.com/hujm2023/go-sms-protocol/cmpp/cmpp20"
	"github.com/hujm2023/go-sms-protocol/cmpp/cmpp30"
	"github.com/hujm2023/go-sms-protocol/sgip/sgip12"
	"github.com/hujm2023/go-sms-protocol/smgp/smgp30"
	"github.com/hujm2023/go-sms-protocol/smpp/smpp34"
	"pgregory.net/rapid"

	"verifharness/gen"
	"verifharness/ref"
	"verifharness/vk"
)

var rec = vk.NewRecorder("C10")

func TestMain(m *testing.M) {
	vk.Disturb = gen.Disturb
	code := m.Run()
	rec.Flush("all")
	os.Exit(code)
}

var dispatchers = map[string]func([]byte) (sms.PDU, error){
	"smpp34": smpp34.DecodeSMPP34, "cmpp20": cmpp20.DecodeCMPP20, "cmpp30": cmpp30.DecodeCMPP30,
	"sgip12": sgip12.DecodeSGIP12, "smgp30": smgp30.DecodeSMGP30,
}

type PairCase struct {
	PDU    gen.PCase `json:"pdu"`
	NewSeq uint32    `json:"new_seq"`
}

func seqAt(b *gen.Binding, img []byte) (uint32, bool) {
	o := b.Spec.SeqOffset()
	if o < 0 || len(img) < o+4 {
		return 0, false
	}
	return binary.BigEndian.Uint32(img[o:]), true
}

func typeName(x any) string {
	if x == nil {
		return "<nil>"
	}
	return reflect.TypeOf(x).String()
}

// checkPair: request/response pairing, command consistency of library-obtained
// PDUs, sequence setter/getter/header agreement, dispatcher round trip.
func checkPair(b *gen.Binding, v *ref.Vals, newSeq uint32, c any) *vk.Violation {
	s := b.Spec
	id := s.ID()
	var viol *vk.Violation
	pn := vk.Guarded("pair", id+"/hang", func() any { return c }, func() {
		p := gen.AsPDU(b.Fill(v))
		reqCmd := p.GetCommand().ToUint32()
		wantSeq := v.Seq[0]
		if s.Hdr == ref.HdrSGIP {
			wantSeq = v.Seq[2]
		}
		if p.GetSequenceID() != wantSeq {
			viol = vk.Violf(id+"/GetSequenceID", c, "%s: GetSequenceID() = %#x, header carries %#x", id, p.GetSequenceID(), wantSeq)
			return
		}
		// a PDU filled with its command id reports that command
		if reqCmd != v.Cmd {
			viol = vk.Violf(id+"/GetCommand-vs-header", c, "%s: GetCommand() = %#x but the header command id is %#x", id, reqCmd, v.Cmd)
			return
		}
		resp := p.GenEmptyResponse()
		if s.Resp == "" {
			if resp != nil {
				viol = vk.Violf(id+"/response-generates-response", c, "%s is a response but GenEmptyResponse() = %s", id, typeName(resp))
			}
		} else {
			rb := gen.ByID(s.Proto + "." + s.Resp)
			if resp == nil || reflect.ValueOf(resp).IsNil() {
				viol = vk.Violf(id+"/no-response", c, "%s: GenEmptyResponse() is nil", id)
				return
			}
			if typeName(resp) != typeName(rb.New()) {
				viol = vk.Violf(id+"/response-type", c, "%s: GenEmptyResponse() is %s, the protocol's response is %s", id, typeName(resp), typeName(rb.New()))
				return
			}
			if resp.GetSequenceID() != p.GetSequenceID() {
				viol = vk.Violf(id+"/response-sequence", c, "%s: response sequence %#x, request %#x", id, resp.GetSequenceID(), p.GetSequenceID())
				return
			}
			if got := resp.GetCommand().ToUint32(); got != reqCmd|0x80000000 {
				viol = vk.Violf(id+"/response-command", c, "%s: response command %#x, request command %#x with the response bit is %#x", id, got, reqCmd, reqCmd|0x80000000)
				return
			}
			// a generated response belongs to its request: generating another response (for another
			// request of the same type) or renumbering that one must not change this one
			v2 := *v
			v2.Seq = [3]uint32{v.Seq[0] ^ 0x5a5a5a5a, v.Seq[1] ^ 0x0f0f0f0f, v.Seq[2] ^ 0xa5a5a5a5}
			p2 := gen.AsPDU(b.Fill(&v2))
			other := p2.GenEmptyResponse()
			if other != nil {
				other.SetSequenceID(newSeq ^ 0xffff)
			}
			if resp.GetSequenceID() != p.GetSequenceID() {
				viol = vk.Violf(id+"/response-shared-between-requests", c, "%s: after a second request of the same type generated (and renumbered) its own response, the first response reports sequence %#x instead of %#x: the responses share state", id, resp.GetSequenceID(), p.GetSequenceID())
				return
			}
			rimg, err := resp.IEncode()
			if err != nil {
				viol = vk.Violf(id+"/response-encode", c, "%s: generated response does not encode: %v", id, err)
				return
			}
			// a response generated from a request whose header happens to name another command (a relay that
			// re-uses a header, a hand-built PDU) is still library-obtained: what it reports must be what it encodes
			vf := *v
			vf.Cmd = v.Cmd ^ 0x3
			if fr := gen.AsPDU(b.Fill(&vf)).GenEmptyResponse(); fr != nil {
				if fimg, ferr := fr.IEncode(); ferr == nil && binary.BigEndian.Uint32(fimg[4:8]) != fr.GetCommand().ToUint32() {
					viol = vk.Violf(id+"/response-command-vs-header-foreign-request-header", c, "%s with header command %#x: the generated response reports command %#x but its encoded header says %#x", id, vf.Cmd, fr.GetCommand().ToUint32(), binary.BigEndian.Uint32(fimg[4:8]))
					return
				}
			}
			if got := binary.BigEndian.Uint32(rimg[4:8]); got != resp.GetCommand().ToUint32() {
				viol = vk.Violf(id+"/response-command-vs-header", c, "%s: generated response reports command %#x but its encoded header says %#x", id, resp.GetCommand().ToUint32(), got)
				return
			}
			if s.Hdr == ref.HdrSGIP {
				for w := 0; w < 3; w++ {
					if got := binary.BigEndian.Uint32(rimg[8+4*w:]); got != v.Seq[w] {
						viol = vk.Violf(id+"/sgip-response-sequence-word", c, "%s: response sequence word %d is %#x, the request's is %#x (SGIP 1.2: the response carries the command's sequence number)", id, w, got, v.Seq[w])
						return
					}
				}
			} else if got, _ := seqAt(rb, rimg); got != wantSeq {
				viol = vk.Violf(id+"/response-sequence-in-header", c, "%s: response header sequence %#x, request %#x", id, got, wantSeq)
				return
			}
		}
		// dispatcher: the encoded PDU maps back to the same type; the decoded PDU's command equals its header
		img, err := p.IEncode()
		if err != nil {
			return // C01's business
		}
		d, derr := dispatchers[s.Proto](img)
		if derr != nil || d == nil {
			if d == nil && derr == nil {
				viol = vk.Violf(id+"/dispatch-nil-nil", c, "%s: dispatcher returned (nil, nil)", id)
				return
			}
			if errors.Is(derr, sms.ErrUnsupportedPacket) {
				viol = vk.Violf(id+"/dispatch-unsupported", c, "%s: the package encodes this PDU (command %#x) but its dispatcher answers 'unsupported'", id, v.Cmd)
				return
			}
			// the image was produced by the package's own encoder from a well-formed assignment: the dispatcher
			// has to map it back to its type (whether its own switch or the type's decoder is what refuses it)
			key := id + "/dispatch-refuses-own-image"
			if own := b.New(); own.IDecode(img) == nil {
				key = id + "/dispatch-refuses-decodable-image"
			}
			viol = vk.Violf(key, c, "%s: the dispatcher refuses an image of %d octets that the package itself produced: %v", id, len(img), derr)
			return
		}
		if typeName(d) != typeName(p) {
			viol = vk.Violf(id+"/dispatch-type", c, "%s: dispatcher returned %s", id, typeName(d))
			return
		}
		dimg, err := d.IEncode()
		if err == nil {
			if got := binary.BigEndian.Uint32(dimg[4:8]); got != d.GetCommand().ToUint32() {
				viol = vk.Violf(id+"/decoded-command-vs-header", c, "%s decoded from command %#x: GetCommand() = %#x but its encoded header says %#x", id, v.Cmd, d.GetCommand().ToUint32(), got)
				return
			}
		}
		if dr := d.GenEmptyResponse(); s.Resp != "" && dr != nil && dr.GetCommand().ToUint32() != v.Cmd|0x80000000 {
			viol = vk.Violf(id+"/decoded-response-command", c, "%s decoded from command %#x answers with command %#x", id, v.Cmd, dr.GetCommand().ToUint32())
			return
		}
		// SetSequenceID is observable through the getter and at the header offset
		d.SetSequenceID(newSeq)
		if d.GetSequenceID() != newSeq {
			viol = vk.Violf(id+"/SetSequenceID-getter", c, "%s: SetSequenceID(%#x) then GetSequenceID() = %#x", id, newSeq, d.GetSequenceID())
			return
		}
		if simg, err := d.IEncode(); err == nil {
			if got, ok := seqAt(b, simg); !ok || got != newSeq {
				viol = vk.Violf(id+"/SetSequenceID-header", c, "%s: SetSequenceID(%#x) but header offset %d holds %#x", id, newSeq, s.SeqOffset(), got)
				return
			}
		}
	})
	if pn != "" {
		return vk.Violf(id+"/panic", c, "%s: panic\n%s", id, pn)
	}
	return viol
}

type IDCase struct {
	Proto string `json:"proto"`
	Cmd   uint32 `json:"cmd"`
	// Len: image size (0 = 700 octets; otherwise at least the header). Word: the 32-bit word that follows the
	// command id (SMPP: command_status, the others: first sequence word). What a command id means must not
	// depend on either.
	Len  int    `json:"len,omitempty"`
	Word uint32 `json:"word_after_cmd,omitempty"`
}

var hdrLen = map[string]int{"smpp34": 16, "cmpp20": 12, "cmpp30": 12, "sgip12": 20, "smgp30": 12}

// known: command ids (per protocol) for which the package has a PDU type.
func known(proto string) map[uint32]*gen.Binding {
	m := map[uint32]*gen.Binding{}
	for _, b := range gen.PDUs() {
		if b.Spec.Proto == proto {
			m[b.Spec.Cmd] = b
			for _, a := range b.Spec.AltCmd {
				m[a] = b
			}
		}
	}
	return m
}

func checkID(c IDCase) *vk.Violation {
	n := 700
	if c.Len > 0 {
		n = c.Len
		if n < hdrLen[c.Proto] {
			n = hdrLen[c.Proto]
		}
	}
	img := make([]byte, n)
	binary.BigEndian.PutUint32(img[0:], uint32(len(img)))
	binary.BigEndian.PutUint32(img[4:], c.Cmd)
	binary.BigEndian.PutUint32(img[8:], c.Word)
	var d sms.PDU
	var err error
	if pn := vk.Guarded("id", c.Proto+"/hang", func() any { return c }, func() { d, err = dispatchers[c.Proto](img) }); pn != "" {
		return vk.Violf(c.Proto+"/dispatch-panic", c, "dispatcher panicked on command %#x\n%s", c.Cmd, pn)
	}
	if d == nil && err == nil {
		return vk.Violf(c.Proto+"/dispatch-nil-nil", c, "%s dispatcher returned (nil, nil) for command %#x", c.Proto, c.Cmd)
	}
	if d != nil && reflect.ValueOf(d).IsNil() {
		return vk.Violf(c.Proto+"/dispatch-typed-nil", c, "%s dispatcher returned a typed nil PDU for command %#x", c.Proto, c.Cmd)
	}
	b, has := known(c.Proto)[c.Cmd]
	if !has {
		if !errors.Is(err, sms.ErrUnsupportedPacket) {
			return vk.Violf(c.Proto+"/unknown-id-not-unsupported", c, "%s dispatcher: command %#x has no PDU type but the answer is (%s, %v), not ErrUnsupportedPacket", c.Proto, c.Cmd, typeName(d), err)
		}
		return nil
	}
	if errors.Is(err, sms.ErrUnsupportedPacket) {
		return vk.Violf(c.Proto+"/known-id-unsupported", c, "%s dispatcher: command %#x is %s, which the package encodes, but the answer is 'unsupported'", c.Proto, c.Cmd, b.Spec.ID())
	}
	if d != nil && typeName(d) != typeName(b.New()) {
		return vk.Violf(c.Proto+"/dispatch-type", c, "%s dispatcher: command %#x gives %s, want %s", c.Proto, c.Cmd, typeName(d), typeName(b.New()))
	}
	return nil
}

var reg = vk.Registry{
	"pair": func(raw json.RawMessage) *vk.Violation {
		var c PairCase
		_ = json.Unmarshal(raw, &c)
		s, v := ref.FromJ(c.PDU.Vals)
		return checkPair(gen.ByID(s.ID()), v, c.NewSeq, c)
	},
	"id": func(raw json.RawMessage) *vk.Violation { var c IDCase; _ = json.Unmarshal(raw, &c); return checkID(c) },
	"ctor": func(raw json.RawMessage) *vk.Violation {
		var c CtorCase
		_ = json.Unmarshal(raw, &c)
		return checkCtor(c)
	},
}

func init() { reg["sequence"] = vk.SequenceReplayer(reg) }

func TestReplay(t *testing.T) { vk.RunReplay(t, reg) }

func TestPairingPerType(t *testing.T) {
	rec.RunProbes(t, reg)
	rec.RunRegress(t, reg)
	for _, b := range gen.PDUs() {
		b := b
		t.Run(b.Spec.ID(), rapid.MakeCheck(func(t *rapid.T) {
			// optional parameters included (one at most - pairing must not depend on them), occasionally a large one:
			// the dispatcher has to map images of any legal size back to their type
			v := gen.DrawVals(t, b, gen.Opts{MaxTriplets: 1, BigTails: rapid.IntRange(0, 7).Draw(t, "big") == 0})
			newSeq := uint32(gen.UintW(32).Draw(t, "newseq"))
			c := PairCase{PDU: gen.PCase{Vals: ref.ToJ(b.Spec, v)}, NewSeq: newSeq}
			rec.Eval()
			rec.NonTrivial(b.Spec.ID(), v.Cmd, v.Seq[0], v.Seq[1], v.Seq[2], newSeq)
			rec.Class("type:" + b.Spec.ID())
			if v.Cmd != b.LibCmd {
				rec.Class("smpp_bind_flavour_receiver_or_transmitter")
			}
			rec.Sample(b.Spec.Proto, map[string]any{"spec": b.Spec.ID(), "cmd": v.Cmd, "seq": v.Seq, "new_seq": newSeq})
			rec.ReportSeq(t, "pair", c, func() *vk.Violation { return checkPair(b, v, newSeq, c) })
		}))
	}
}

// defined command ids per protocol (the constant blocks of the packages)
func definedIDs(proto string) []uint32 {
	var ids []uint32
	switch proto {
	case "cmpp20", "cmpp30":
		for i := uint32(0); i <= 0x10; i++ {
			ids = append(ids, i, 0x80000000|i)
		}
	case "smgp30":
		for i := uint32(0); i <= 0x0b; i++ {
			ids = append(ids, i, 0x80000000|i)
		}
	case "sgip12":
		for i := uint32(0); i <= 0x11; i++ {
			ids = append(ids, i, 0x80000000|i)
		}
		ids = append(ids, 0x1000, 0x80001000)
	case "smpp34":
		for _, i := range []uint32{0, 1, 2, 3, 4, 5, 6, 7, 8, 9, 0x0b, 0x15, 0x21, 0x102, 0x103} {
			ids = append(ids, i, 0x80000000|i)
		}
	}
	return ids
}

func TestDispatcherIDs(t *testing.T) {
	env := rec.Env()
	if env.Shard == 0 {
		for proto := range dispatchers {
			seen := map[uint32]bool{}
			all := definedIDs(proto)
			for i := uint32(0); i <= 0x20; i++ {
				all = append(all, i, 0x80000000|i)
			}
			// near misses: every single-bit flip of every id the package has a type for
			for id := range known(proto) {
				for bit := uint(0); bit < 32; bit++ {
					all = append(all, id^(1<<bit))
				}
			}
			for _, id := range all {
				if seen[id] {
					continue
				}
				seen[id] = true
				rec.Eval()
				rec.NonTrivialConstructed(1)
				rec.Report(t, "id", checkID(IDCase{Proto: proto, Cmd: id}))
				// the same id in a header-only frame and with the status / sequence word that follows it set to the
				// values peers really send (SMPP: ESME_RINVMSGLEN 1, ESME_RINVCMDID 3, ESME_RSYSERR 8, ESME_RTHROTTLED 0x58)
				for _, w := range []uint32{0, 1, 3, 8, 0x58, 0xff, 0xffffffff} {
					for _, l := range []int{hdrLen[proto], hdrLen[proto] + 1, 0} {
						if w == 0 && l == 0 {
							continue
						}
						rec.Eval()
						rec.NonTrivialConstructed(1)
						rec.Report(t, "id", checkID(IDCase{Proto: proto, Cmd: id, Len: l, Word: w}))
					}
				}
			}
		}
		rec.Exhaustive("every defined command id, every id 0..0x20 with and without the response bit and every single-bit flip of every supported id, all five dispatchers")
	}
	rapid.Check(t, func(t *rapid.T) {
		proto := rapid.SampledFrom([]string{"smpp34", "cmpp20", "cmpp30", "sgip12", "smgp30"}).Draw(t, "proto")
		id := rapid.OneOf(rapid.Uint32(), rapid.Uint32Range(0, 0x200), rapid.Uint32Range(0x80000000, 0x80000200)).Draw(t, "id")
		rec.Eval()
		rec.NonTrivial(proto, id)
		ic := IDCase{Proto: proto, Cmd: id}
		if rapid.Bool().Draw(t, "shape") {
			ic.Len = rapid.SampledFrom([]int{12, 13, 16, 17, 20, 21, 24, 29, 64}).Draw(t, "len")
			ic.Word = rapid.OneOf(rapid.Uint32Range(0, 0x110), rapid.Uint32()).Draw(t, "word")
		}
		rec.Sample("id", ic)
		rec.Report(t, "id", checkID(ic))
	})
}

// ---- constructors

type CtorCase struct {
	Which   string `json:"which"`
	Account string `json:"account"`
	Secret  string `json:"secret"`
	Seq     uint32 `json:"seq"`
	Node    uint32 `json:"node"`
}

func checkCtor(c CtorCase) *vk.Violation {
	var viol *vk.Violation
	pn := vk.Guarded("ctor", c.Which+"/hang", func() any { return c }, func() {
		var img []byte
		var wantCmd uint32
		var p sms.PDU
		seqOff := 8
		switch c.Which {
		case "cmpp20.NewConnect":
			p, wantCmd = cmpp20.NewConnect(c.Account, c.Secret, c.Seq), 1
		case "sgip12.NewBind":
			p, wantCmd, seqOff = sgip12.NewBind(c.Account, c.Secret, c.Node, c.Seq), 1, 16
		case "smgp30.NewLogin":
			p, wantCmd = smgp30.NewLogin(c.Account, c.Secret, c.Seq), 1
		case "cmpp20.NewTerminatePacket":
			img, wantCmd = cmpp20.NewTerminatePacket(c.Seq), 2
		case "cmpp20.NewActiveTestPacket":
			img, wantCmd = cmpp20.NewActiveTestPacket(c.Seq), 8
		case "smgp30.NewActiveTestPacket":
			img, wantCmd = smgp30.NewActiveTestPacket(c.Seq), 4
		case "smpp34.NewEnquireLinkReqBytes":
			img, wantCmd, seqOff = smpp34.NewEnquireLinkReqBytes(c.Seq), 0x15, 12
		case "smpp34.NewEnquireLinkRespBytes":
			img, wantCmd, seqOff = smpp34.NewEnquireLinkRespBytes(c.Seq), 0x80000015, 12
		case "smpp34.NewUnBindRespBytes":
			img, wantCmd, seqOff = smpp34.NewUnBindRespBytes(c.Seq), 0x80000006, 12
		case "smpp34.NewDeliverySMRespBytes":
			img, wantCmd, seqOff = smpp34.NewDeliverySMRespBytes(c.Seq), 0x80000005, 12
		case "smpp34.NewUnBindBytes":
			img, wantCmd, seqOff = smpp34.NewUnBindBytes(c.Seq), 6, 12
		}
		if p != nil {
			var err error
			img, err = p.IEncode()
			if err != nil {
				viol = vk.Violf(c.Which+"/encode", c, "%s: result does not encode: %v", c.Which, err)
				return
			}
			if got := p.GetCommand().ToUint32(); got != binary.BigEndian.Uint32(img[4:8]) {
				viol = vk.Violf(c.Which+"/command-vs-header", c, "%s: GetCommand() = %#x, encoded header says %#x", c.Which, got, binary.BigEndian.Uint32(img[4:8]))
				return
			}
			if p.GetSequenceID() != c.Seq {
				viol = vk.Violf(c.Which+"/sequence", c, "%s: GetSequenceID() = %#x, want %#x", c.Which, p.GetSequenceID(), c.Seq)
				return
			}
		}
		if len(img) < seqOff+4 {
			viol = vk.Violf(c.Which+"/short", c, "%s: image of %d octets", c.Which, len(img))
			return
		}
		if int(binary.BigEndian.Uint32(img)) != len(img) {
			viol = vk.Violf(c.Which+"/length", c, "%s: length word %d, image %d octets", c.Which, binary.BigEndian.Uint32(img), len(img))
			return
		}
		if got := binary.BigEndian.Uint32(img[4:8]); got != wantCmd {
			viol = vk.Violf(c.Which+"/command", c, "%s: header command %#x, specification assigns %#x", c.Which, got, wantCmd)
			return
		}
		if got := binary.BigEndian.Uint32(img[seqOff:]); got != c.Seq {
			viol = vk.Violf(c.Which+"/sequence-in-header", c, "%s: header sequence %#x, want %#x", c.Which, got, c.Seq)
		}
	})
	if pn != "" {
		return vk.Violf(c.Which+"/panic", c, "panic\n%s", pn)
	}
	return viol
}

func TestConstructors(t *testing.T) {
	names := []string{"cmpp20.NewConnect", "sgip12.NewBind", "smgp30.NewLogin", "cmpp20.NewTerminatePacket", "cmpp20.NewActiveTestPacket",
		"smgp30.NewActiveTestPacket", "smpp34.NewEnquireLinkReqBytes", "smpp34.NewEnquireLinkRespBytes", "smpp34.NewUnBindRespBytes",
		"smpp34.NewDeliverySMRespBytes", "smpp34.NewUnBindBytes"}
	rapid.Check(t, func(t *rapid.T) {
		c := CtorCase{Which: rapid.SampledFrom(names).Draw(t, "which"), Seq: uint32(gen.UintW(32).Draw(t, "seq")), Node: uint32(gen.UintW(32).Draw(t, "node")),
			Account: rapid.StringMatching(`[a-z0-9]{0,6}`).Draw(t, "account"), Secret: rapid.StringMatching(`[ -~]{0,12}`).Draw(t, "secret")}
		rec.Eval()
		rec.NonTrivial(c.Which, c.Seq, c.Node, c.Account)
		rec.Class("constructor:" + c.Which)
		rec.ReportSeq(t, "ctor", c, func() *vk.Violation { return checkCtor(c) })
	})
	_ = fmt.Sprint
}
