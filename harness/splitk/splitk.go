// Package splitk holds what the long-message properties (C06, C07, C09, C14)
// share: the case type, the text builder, the call into the library and the
// three oracles (content, shape, per-part decodability).
package splitk

import (
	"bytes"
	"context"
	"fmt"
	"unicode/utf8"

	sms "github.com/hujm2023/go-sms-protocol"
	dc "github.com/hujm2023/go-sms-protocol/datacoding"
	"pgregory.net/rapid"

	"verifharness/ref"
	"verifharness/vk"
)

type Case struct {
	Proto  string `json:"proto"`  // "cmpp" | "smpp"
	Coding int    `json:"coding"` // requested data coding number
	Ref    byte   `json:"ref"`    // caller's reference byte
	Text   string `json:"text_hex"`
	Note   string `json:"note,omitempty"`
}

func (c Case) TextString() string { return string(vk.UnHex(c.Text)) }

type Result struct {
	Parts  [][]byte
	Actual int
	Err    error
	Panic  string
	Shared string // set when overwriting the spare capacity of one returned part changed another part
}

func (r *Result) checkOwnership() {
	if i, j, sh := vk.SharedSpare(r.Parts); sh {
		r.Shared = fmt.Sprintf("appending to part %d of %d (writing into its spare capacity) changed part %d: the parts of one result share a backing array without their capacity being limited to their length", i+1, len(r.Parts), j+1)
	}
}

// KindOf maps a protocol's data-coding number to the reference coding; ok=false for invalid numbers.
func KindOf(proto string, n int) (ref.TextKind, bool) {
	if proto == "cmpp" {
		switch n {
		case 0:
			return ref.KASCII, true
		case 8, 9:
			return ref.KUCS2, true
		case 15:
			return ref.KGB18030, true
		}
		return 0, false
	}
	switch n {
	case 0:
		return ref.KGSMUnpacked, true
	case 1:
		return ref.KASCII, true
	case 3:
		return ref.KLatin1, true
	case 8:
		return ref.KUCS2, true
	case 99:
		return ref.KGSMPacked, true
	}
	return 0, false
}

// Run calls the split entry point under the watchdog.
func Run(c Case) Result {
	var r Result
	text := c.TextString()
	r.Panic = vk.Guarded("split", c.Proto+"/hang", func() any { return c }, func() {
		if c.Proto == "cmpp" {
			parts, act, err := sms.EncodeCMPPContentAndSplit(context.Background(), text, dc.CMPPDataCoding(c.Coding), c.Ref)
			r.Parts, r.Actual, r.Err = parts, int(act), err
		} else {
			parts, act, err := sms.EncodeSMPPContentAndSplit(context.Background(), text, dc.SMPPDataCoding(c.Coding), c.Ref)
			r.Parts, r.Actual, r.Err = parts, int(act), err
		}
	})
	r.checkOwnership()
	return r
}

// RunBatch calls the third split entry point, BatchDataCodingEncoder.Build, with the
// requested coding as its only candidate (its own encode-and-split path).
func RunBatch(c Case) Result {
	var r Result
	text := c.TextString()
	r.Panic = vk.Guarded("split", c.Proto+"/batch/hang", func() any { return c }, func() {
		var cand dc.ProtocolDataCoding = dc.CMPPDataCoding(c.Coding)
		pr := sms.CMPP
		if c.Proto == "smpp" {
			cand, pr = dc.SMPPDataCoding(c.Coding), sms.SMPP
		}
		parts, act, err := sms.NewBatchDataCodingEncoder().Protocol(pr).Content(text, c.Ref).DataCodings([]dc.ProtocolDataCoding{cand}).Build(context.Background())
		r.Parts, r.Err = parts, err
		r.Actual = -2
		switch a := act.(type) {
		case dc.CMPPDataCoding:
			r.Actual = int(a)
		case dc.SMPPDataCoding:
			r.Actual = int(a)
		}
	})
	r.checkOwnership()
	return r
}

// Representable: can the requested coding represent the text (reference predicate)?
// disputed=true when the answer depends on which "Latin-1" table is meant.
func Representable(proto string, coding int, text string) (ok, disputed bool) {
	k, valid := KindOf(proto, coding)
	if !valid {
		return false, false
	}
	if k == ref.KLatin1 {
		for _, r := range text {
			if ref.Latin1Disputed(r) {
				disputed = true
			}
		}
	}
	_, _, err := ref.Units(k, text)
	return err == nil, disputed
}

// ExpectedCodings returns the acceptable reported codings.
func ExpectedCodings(c Case) []int {
	ok, disputed := Representable(c.Proto, c.Coding, c.TextString())
	switch {
	case disputed:
		return []int{c.Coding, 8}
	case ok:
		return []int{c.Coding}
	}
	return []int{8}
}

func contains(xs []int, x int) bool {
	for _, y := range xs {
		if x == y {
			return true
		}
	}
	return false
}

// Analysis is what the oracles derive from one result.
type Analysis struct {
	Kind     ref.TextKind
	U        []byte
	Starts   []int
	Single   bool
	Segments [][]byte // per part: the units it carries (multi-part) or the whole stream (single)
	Headers  [][]byte
}

func key(c Case, what string) string { return fmt.Sprintf("%s/coding-%d/%s", c.Proto, c.Coding, what) }

// Analyse performs the checks every oracle needs first: no panic, reported
// coding valid, text representable under it, parts split into header+payload,
// payload mapped to units. Violations found here are content violations (C06).
func Analyse(c Case, r Result) (*Analysis, *vk.Violation) {
	text := c.TextString()
	if r.Panic != "" {
		return nil, vk.Violf(key(c, "panic"), c, "split panicked\n%s", r.Panic)
	}
	k, valid := KindOf(c.Proto, r.Actual)
	if !valid {
		return nil, vk.Violf(key(c, "reported-coding-invalid"), c, "reported data coding %d is not a coding of %s (requested %d, %d parts)", r.Actual, c.Proto, c.Coding, len(r.Parts))
	}
	U, starts, err := ref.Units(k, text)
	if err != nil {
		return nil, vk.Violf(key(c, "reported-coding-cannot-represent"), c, "reported coding %d (%v) cannot represent the text %q", r.Actual, k, clip(text))
	}
	a := &Analysis{Kind: k, U: U, Starts: starts}
	single, _ := k.Limits()
	a.Single = len(U) <= single
	if a.Single {
		if len(r.Parts) != 1 {
			return a, vk.Violf(key(c, "single-not-one-part"), c, "%d units fit a single message but %d parts were returned", len(U), len(r.Parts))
		}
		want := U
		if k == ref.KGSMPacked {
			want = ref.GSMPack(U)
		}
		if !bytes.Equal(r.Parts[0], want) {
			return a, vk.Violf(key(c, "single-content"), c, "single part is %x, reference encoding is %x", clipb(r.Parts[0]), clipb(want))
		}
		a.Segments = [][]byte{U}
		return a, nil
	}
	if len(r.Parts) < 2 {
		return a, vk.Violf(key(c, "multi-one-part"), c, "%d units need several parts but %d part was returned (%d octets)", len(U), len(r.Parts), partLen(r.Parts))
	}
	var payloads [][]byte
	for i, p := range r.Parts {
		if len(p) < 6 || p[0] != 5 || p[1] != 0 || p[2] != 3 {
			return a, vk.Violf(key(c, "header-missing"), c, "part %d does not start with 05 00 03: %x", i, clipb(p))
		}
		a.Headers = append(a.Headers, p[:6])
		payloads = append(payloads, p[6:])
	}
	if k != ref.KGSMPacked {
		a.Segments = payloads
		var cat []byte
		for _, p := range payloads {
			cat = append(cat, p...)
		}
		if !bytes.Equal(cat, U) {
			return a, vk.Violf(key(c, "content"), c, "concatenated payloads differ from the reference encoding: %s (payload %d units, reference %d)", firstDiff(cat, U), len(cat), len(U))
		}
		return a, nil
	}
	// packed GSM-7: find septet counts consistent with each payload's octet length
	segs, ok := dfsPacked(payloads, U, 0, 0)
	if !ok {
		total := 0
		for _, p := range payloads {
			total += 8 * len(p) / 7
		}
		return a, vk.Violf(key(c, "content"), c, "packed payloads cannot be unpacked to the reference septet stream (reference %d septets, payloads hold at most %d)", len(U), total)
	}
	a.Segments = segs
	return a, nil
}

func dfsPacked(payloads [][]byte, U []byte, i, pos int) ([][]byte, bool) {
	if i == len(payloads) {
		return nil, pos == len(U)
	}
	for _, n := range ref.PackedPayloadSeptetCounts(len(payloads[i])) {
		if n < 0 || pos+n > len(U) {
			continue
		}
		seg := ref.GSMUnpack(payloads[i], n)
		if !bytes.Equal(seg, U[pos:pos+n]) {
			continue
		}
		if rest, ok := dfsPacked(payloads, U, i+1, pos+n); ok {
			return append([][]byte{seg}, rest...), true
		}
	}
	return nil, false
}

// Content is the C06 oracle.
func Content(c Case, r Result) *vk.Violation {
	if r.Shared != "" {
		return vk.Violf(key(c, "parts-share-memory"), c, "%s", r.Shared)
	}
	text := c.TextString()
	if r.Panic != "" {
		return vk.Violf(key(c, "panic"), c, "split panicked\n%s", r.Panic)
	}
	if r.Err != nil {
		if NeedsMoreThan255(c) {
			return nil // refusing is what C07 demands
		}
		return vk.Violf(key(c, "error"), c, "split failed on a valid text of %d bytes: %v", len(text), r.Err)
	}
	exp := ExpectedCodings(c)
	if !contains(exp, r.Actual) {
		return vk.Violf(key(c, "reported-coding"), c, "requested coding %d, reported %d, expected one of %v (text %q)", c.Coding, r.Actual, exp, clip(text))
	}
	_, v := Analyse(c, r)
	return v
}

// NeedsMoreThan255 reports whether the text needs more than 255 parts under every acceptable coding.
func NeedsMoreThan255(c Case) bool {
	text := c.TextString()
	for _, n := range ExpectedCodings(c) {
		k, _ := KindOf(c.Proto, n)
		_, starts, err := ref.Units(k, text)
		if err != nil {
			continue
		}
		single, per := k.Limits()
		if starts[len(starts)-1] <= single {
			return false
		}
		// whole characters only: escape pairs / surrogate pairs that do not fit the
		// tail of a part move to the next one, so the count is the greedy one
		if ref.GreedyCount(starts, per) <= 255 {
			return false
		}
	}
	return true
}

// Shape is the producing side of the C07 oracle.
func Shape(c Case, r Result) *vk.Violation {
	if r.Shared != "" {
		return vk.Violf(key(c, "parts-share-memory"), c, "%s", r.Shared)
	}
	if r.Panic != "" {
		return vk.Violf(key(c, "panic"), c, "split panicked\n%s", r.Panic)
	}
	if r.Err != nil {
		if NeedsMoreThan255(c) {
			return nil
		}
		return vk.Violf(key(c, "error"), c, "split failed: %v", r.Err)
	}
	k, valid := KindOf(c.Proto, r.Actual)
	if !valid {
		// C06 reports the invalid number; the shape is judged as the UCS-2 data it is
		k = ref.KUCS2
	}
	text := c.TextString()
	U, starts, err := ref.Units(k, text)
	if err != nil {
		return nil // C06's business
	}
	single, per := k.Limits()
	if len(U) <= single {
		if len(r.Parts) != 1 {
			return vk.Violf(key(c, "single-not-one-part"), c, "%d units fit one message, %d parts returned", len(U), len(r.Parts))
		}
		limit := 140
		if k == ref.KGSMUnpacked {
			limit = 160
		}
		if len(r.Parts[0]) > limit {
			return vk.Violf(key(c, "single-too-long"), c, "single part has %d octets (limit %d)", len(r.Parts[0]), limit)
		}
		if len(r.Parts[0]) >= 3 && r.Parts[0][0] == 5 && r.Parts[0][1] == 0 && r.Parts[0][2] == 3 && !bytes.HasPrefix(U, []byte{5, 0, 3}) && k != ref.KGSMPacked {
			return vk.Violf(key(c, "single-has-header"), c, "single part carries a concatenation header")
		}
		return nil
	}
	needed := (len(U) + per - 1) / per
	greedy := ref.GreedyCount(starts, per)
	if greedy > 255 {
		return vk.Violf(key(c, "more-than-255-parts-not-refused"), c, "the text needs %d parts (> 255) but the call succeeded with %d parts; header of the last part: %x", greedy, len(r.Parts), clipb(lastHeader(r.Parts)))
	}
	n := len(r.Parts)
	if n < needed || n > greedy {
		return vk.Violf(key(c, "part-count"), c, "%d parts returned; %d units need at least %d and, filling each part as far as whole characters allow, exactly %d", n, len(U), needed, greedy)
	}
	for i, p := range r.Parts {
		if len(p) < 6 {
			return vk.Violf(key(c, "part-too-short"), c, "part %d has %d octets", i, len(p))
		}
		want := ref.Header6(c.Ref, byte(n), byte(i+1))
		if !bytes.Equal(p[:6], want) {
			return vk.Violf(key(c, "header"), c, "part %d of %d starts with %x, want %x", i+1, n, p[:6], want)
		}
		payload := len(p) - 6
		if payload == 0 {
			return vk.Violf(key(c, "empty-part"), c, "part %d of %d has an empty payload", i+1, n)
		}
		limit := 134
		if k == ref.KGSMUnpacked {
			limit = 153
		}
		if payload > limit {
			return vk.Violf(key(c, "part-too-long"), c, "part %d of %d has a payload of %d octets (limit %d)", i+1, n, payload, limit)
		}
	}
	return nil
}

func lastHeader(parts [][]byte) []byte {
	if len(parts) == 0 || len(parts[len(parts)-1]) < 6 {
		return nil
	}
	return parts[len(parts)-1][:6]
}

// Boundaries is the C14 oracle: every part decodes on its own and the
// concatenation of the per-part texts is the original.
func Boundaries(c Case, r Result) *vk.Violation {
	if r.Shared != "" {
		return vk.Violf(key(c, "parts-share-memory"), c, "%s", r.Shared)
	}
	if r.Panic != "" || r.Err != nil {
		return nil // C06/C07
	}
	a, v := Analyse(c, r)
	if v != nil || a == nil || a.Single {
		return nil // content-level problems belong to C06
	}
	var sb []byte
	for i, seg := range a.Segments {
		s, err := ref.DecodeUnits(a.Kind, seg)
		if err != nil {
			what := "character"
			switch a.Kind {
			case ref.KUCS2:
				what = "surrogate pair"
			case ref.KGB18030:
				what = "multi-octet GB18030 character"
			case ref.KGSMPacked, ref.KGSMUnpacked:
				what = "escape pair"
			}
			return vk.Violf(fmt.Sprintf("%s/%v/part-not-decodable-alone", c.Proto, a.Kind), c, "part %d of %d does not decode on its own (%v): a %s straddles the part boundary; payload ends %x, next begins %x", i+1, len(a.Segments), err, what, tail(seg), head(a.Segments, i+1))
		}
		sb = append(sb, s...)
	}
	if string(sb) != c.TextString() {
		return vk.Violf(fmt.Sprintf("%s/%v/per-part-texts-differ", c.Proto, a.Kind), c, "concatenation of the separately decoded parts differs from the original text")
	}
	return nil
}

// StraddleForced reports whether, in the reference unit stream, some multiple
// of the capacity falls strictly inside a multi-unit character (the splitter
// HAD to move a boundary).
func StraddleForced(a *Analysis) bool {
	_, per := a.Kind.Limits()
	isStart := map[int]bool{}
	for _, s := range a.Starts {
		isStart[s] = true
	}
	for p := per; p < len(a.U); p += per {
		if !isStart[p] {
			return true
		}
	}
	return false
}

func tail(b []byte) []byte {
	if len(b) > 4 {
		return b[len(b)-4:]
	}
	return b
}
func head(segs [][]byte, i int) []byte {
	if i >= len(segs) {
		return nil
	}
	if len(segs[i]) > 4 {
		return segs[i][:4]
	}
	return segs[i]
}

func partLen(p [][]byte) int {
	if len(p) == 0 {
		return 0
	}
	return len(p[0])
}

func firstDiff(a, b []byte) string {
	n := len(a)
	if len(b) < n {
		n = len(b)
	}
	for i := 0; i < n; i++ {
		if a[i] != b[i] {
			return fmt.Sprintf("first difference at unit %d", i)
		}
	}
	return fmt.Sprintf("one is a prefix of the other (%d vs %d units)", len(a), len(b))
}

func clip(s string) string {
	if len(s) > 80 {
		i := 80
		for i > 0 && !utf8.RuneStart(s[i]) {
			i--
		}
		return s[:i] + "…"
	}
	return s
}
func clipb(b []byte) []byte {
	if len(b) > 48 {
		return b[:48]
	}
	return b
}

// ---------------------------------------------------------------- text builder

var (
	CMPPValid = []int{0, 8, 9, 15}
	// numbers outside 0..255 that are congruent to a valid coding modulo 256 included
	CMPPInvalid = []int{1, 3, 4, 7, 16, 255, -1, 256, 264, 265, 271, -241, -248}
	SMPPValid   = []int{0, 1, 3, 8, 99}
	SMPPInvalid = []int{2, 4, 9, 15, 100, 255, -1, 256, 257, 259, 264, 355, -248, -255}
)

// single-unit and multi-unit characters per reference coding
var singles = map[ref.TextKind][]rune{
	ref.KASCII:  []rune("abcXYZ019 .,!@$"),
	ref.KLatin1: []rune("abcXYZ019 éÿÀñ£"),
	// includes code units whose octets look like specials of other codings (0x1B low octet, GB18030 lead / digit octets, 0xD8 low octet)
	ref.KUCS2:        []rune("a中文é€Ω日本語字\u011b\u4e1b\u1b1b\u30d8\u8130\u001b\u200d\ufe0f\u0301"),
	ref.KGB18030:     []rune("abc123 XYZ"),
	ref.KGSMUnpacked: []rune("abcXYZ019 @£$ΔΩèà\r\n"),
	ref.KGSMPacked:   []rune("abcXYZ019 @£$ΔΩèà\r\n"),
}
var multis = map[ref.TextKind][]rune{
	ref.KUCS2:        {0x1F600, 0x10000, 0x10FFFF, 0x20BB7},
	ref.KGB18030:     {0x4E2D, 0x6587, 0x20AC, 0x00E9, 0x0080, 0x1F600, 0x10000, 0x3000},
	ref.KGSMUnpacked: []rune("[]{}^~|\\€\f"),
	ref.KGSMPacked:   []rune("[]{}^~|\\€\f"),
}

// DrawCase builds a text to a requested number of encoded units with
// multi-unit characters placed at drawn offsets around part boundaries.
func DrawCase(t *rapid.T, maxUnits int) Case {
	c := Case{Proto: rapid.SampledFrom([]string{"cmpp", "smpp"}).Draw(t, "proto"), Ref: rapid.Byte().Draw(t, "ref")}
	valid, invalid := CMPPValid, CMPPInvalid
	if c.Proto == "smpp" {
		valid, invalid = SMPPValid, SMPPInvalid
	}
	if rapid.IntRange(0, 9).Draw(t, "invalidcoding") == 0 {
		c.Coding = rapid.SampledFrom(invalid).Draw(t, "coding")
	} else {
		c.Coding = rapid.SampledFrom(valid).Draw(t, "coding")
	}
	// geometry: the coding the data will effectively be in
	k, ok := KindOf(c.Proto, c.Coding)
	fallback := !ok || rapid.IntRange(0, 7).Draw(t, "forcefallback") == 0
	if fallback {
		k = ref.KUCS2
	}
	c.Text = vk.Hex([]byte(BuildText(t, k, fallback && ok, c.Proto, c.Coding, maxUnits)))
	if rapid.IntRange(0, 7).Draw(t, "corpus") == 0 {
		c.Text = vk.Hex([]byte(CorpusText(t)))
	}
	return c
}

// Corpus: messages as applications really send them - signature in lenticular or square brackets in front
// or at the end, one-time codes, links, opt-out lines, JSON-like payloads, repeated bracket pairs (GSM
// extension characters), emoji with variation selectors. Code that "understands" message texts (signature
// handling, code detection, compaction) is exercised only by such texts.
var Corpus = []string{
	"【ACME】your code is 1234", "【德邦快递】您的快件已签收", "您的验证码是123456，5分钟内有效。【某某科技】", "【】empty signature", "【unclosed signature",
	"[Bank] OTP 123456. Do not share it with anyone.", "Reply STOP to unsubscribe http://t.cn/AbC123?x=1&y=2", "{\"k\":[1,2,{\"a\":\"b\"}]}",
	"[][][][][][][][][][][][][][][][][][][][][][][][][][][][][][][][][][][][][][][][][][][][][]", "{}{}{}{}{}{}{}{}{}{}{}{}{}{}{}{}{}{}{}{}{}{}{}{}{}{}{}{}{}{}{}{}{}{}{}{}{}{}{}{}{}{}{}{}{}{}{}{}{}{}{}{}{}{}{}{}{}{}{}{}{}{}{}{}{}{}{}{}{}{}{}{}{}{}{}{}{}{}{}{}",
	"Total: 12.50€ ~ thanks ^_^ |end|", "\ufeffBOM first", "\u2764\ufe0f \U0001F336\ufe0f \U0001F468\u200d\U0001F469\u200d\U0001F467", "id:0123456789 sub:001 dlvrd:001 submit date:2401011200 done date:2401011201 stat:DELIVRD err:000 text:hello",
	"Dear customer, your parcel 1Z999AA10123456784 is out for delivery today between 14:00 and 16:00.", "Ünïcödé tèxt with àccénts ñ ß ø å", "\u0005\u0000\u0003\u0001\u0002\u0001looks like a header",
}

// CorpusText draws a corpus message, optionally repeated / combined to multi-part size.
func CorpusText(t *rapid.T) string {
	s := rapid.SampledFrom(Corpus).Draw(t, "corpusmsg")
	switch rapid.IntRange(0, 3).Draw(t, "corpusshape") {
	case 0:
	case 1:
		s = s + " " + rapid.SampledFrom(Corpus).Draw(t, "corpusmsg2")
	case 2:
		n := rapid.IntRange(2, 12).Draw(t, "corpusrep")
		r := s
		for i := 1; i < n; i++ {
			r += " " + s
		}
		s = r
	default:
		// a signature in front of an ordinary long text
		tail := rapid.SampledFrom(Corpus).Draw(t, "corpustail")
		for len(tail) < 200 {
			tail += " " + tail
		}
		s = s + tail
	}
	return s
}

// BuildText builds the text under the geometry of coding k. With forceOut one
// character outside the requested coding's repertoire is included.
func BuildText(t *rapid.T, k ref.TextKind, forceOut bool, proto string, requested int, maxUnits int) string {
	single, per := k.Limits()
	var target int
	switch rapid.IntRange(0, 9).Draw(t, "lenclass") {
	case 0:
		target = rapid.SampledFrom([]int{0, 1, 2}).Draw(t, "tiny")
	case 1:
		target = single + rapid.IntRange(-2, 2).Draw(t, "aroundsingle")
	case 2, 3, 4, 5:
		target = rapid.IntRange(1, 6).Draw(t, "k")*per + rapid.IntRange(-2, 2).Draw(t, "aroundk")
	case 6:
		target = rapid.IntRange(0, 3*per).Draw(t, "mid")
	case 7:
		if maxUnits > 255*per {
			target = 255*per + rapid.IntRange(-2, per+2).Draw(t, "around255")
		} else {
			target = rapid.IntRange(0, maxUnits).Draw(t, "any")
		}
	default:
		target = rapid.IntRange(0, 8*per).Draw(t, "upto8")
	}
	if target > maxUnits {
		target = maxUnits
	}
	if target < 0 {
		target = 0
	}
	// placements of multi-unit characters: unit offsets k*per+d, d in -3..+3
	place := map[int]rune{}
	if ms := multis[k]; len(ms) > 0 {
		n := rapid.IntRange(0, 6).Draw(t, "nplace")
		for i := 0; i < n; i++ {
			kk := rapid.IntRange(1, 6).Draw(t, "pk")
			d := rapid.IntRange(-3, 3).Draw(t, "pd")
			place[kk*per+d] = ms[rapid.IntRange(0, len(ms)-1).Draw(t, "pm")]
		}
	}
	dense := len(multis[k]) > 0 && rapid.IntRange(0, 5).Draw(t, "dense") == 0
	sm := vk.SplitMix(rapid.Uint64().Draw(t, "fill"))
	ss := singles[k]
	var rs []rune
	units := 0
	outAt := -1
	if forceOut {
		outAt = rapid.IntRange(0, target).Draw(t, "outat")
	}
	width := func(r rune) int {
		u, _, err := ref.Units(k, string(r))
		if err != nil {
			return 1
		}
		return len(u)
	}
	for units < target {
		var r rune
		if m, ok := place[units]; ok {
			r = m
		} else if dense && sm.Intn(3) == 0 {
			r = multis[k][sm.Intn(len(multis[k]))]
		} else {
			r = ss[sm.Intn(len(ss))]
		}
		if outAt >= 0 && units >= outAt {
			for _, x := range outOfRepertoire(t, proto, requested) {
				rs = append(rs, x)
				units += width(x)
			}
			outAt = -1
			continue
		}
		rs = append(rs, r)
		units += width(r)
	}
	if forceOut && outAt >= 0 {
		rs = append(rs, outOfRepertoire(t, proto, requested)...)
	}
	return string(rs)
}

// outOfRepertoire returns characters the requested coding cannot represent (so the UCS-2 fallback must
// be taken): a CJK character, or - for the alphabetic codings - a base letter followed by a combining
// mark, or a singleton canonical equivalent of a repertoire letter (Ohm / Kelvin / Angstrom sign): texts
// a well-meant normalisation would fold into the repertoire.
// nearMiss: for each alphabetic coding the letters and signs of the neighbouring repertoires that it does
// NOT contain (GSM 7-bit: every Latin-1 / Latin Extended-A / Greek capital it lacks, e.g. c-cedilla, a-acute;
// ASCII: the Latin-1 letters; Latin-1: Latin Extended-A) - the characters a well-meant alphabet extension or
// a lenient table would let through.
var nearMiss = func() map[ref.TextKind][]rune {
	m := map[ref.TextKind][]rune{}
	for r := rune(0x00A0); r <= 0x017F; r++ {
		if _, ok := ref.GSMRune(r); !ok {
			m[ref.KGSMUnpacked] = append(m[ref.KGSMUnpacked], r)
		}
		if r >= 0x0100 {
			m[ref.KLatin1] = append(m[ref.KLatin1], r)
		}
		if r <= 0x00FF {
			m[ref.KASCII] = append(m[ref.KASCII], r)
		}
	}
	for r := rune(0x0391); r <= 0x03C9; r++ {
		if _, ok := ref.GSMRune(r); !ok {
			m[ref.KGSMUnpacked] = append(m[ref.KGSMUnpacked], r)
		}
	}
	m[ref.KGSMUnpacked] = append(m[ref.KGSMUnpacked], '`', 0x00, 0x7f)
	m[ref.KGSMPacked] = m[ref.KGSMUnpacked]
	return m
}()

func outOfRepertoire(t *rapid.T, proto string, requested int) []rune {
	k, ok := KindOf(proto, requested)
	if ok && len(nearMiss[k]) > 0 && rapid.IntRange(0, 2).Draw(t, "nearmiss") == 0 {
		return []rune{rapid.SampledFrom(nearMiss[k]).Draw(t, "nearmissrune")}
	}
	if ok && (k == ref.KASCII || k == ref.KLatin1 || k.IsGSM()) && rapid.Bool().Draw(t, "outkind") {
		return []rune(rapid.SampledFrom([]string{"e\u0301", "a\u0300", "u\u0308", "n\u0303", "\u2126", "\u212a", "\u212b", "\u037e", "A\u030a"}).Draw(t, "outseq"))
	}
	return []rune{0x4E2D}
}

// GridCases enumerates the boundary grid: coding x multi-unit character x
// k = 1..4 x every offset at which the character straddles boundary k*cap
// (and the offsets just before/after), plus the named witnesses.
func GridCases() []Case {
	var out []Case
	type pc struct {
		proto  string
		coding int
	}
	for _, x := range []pc{{"smpp", 99}, {"smpp", 0}, {"smpp", 8}, {"cmpp", 8}, {"cmpp", 9}, {"cmpp", 15}} {
		k, _ := KindOf(x.proto, x.coding)
		_, per := k.Limits()
		for _, m := range multis[k] {
			mu, _, err := ref.Units(k, string(m))
			if err != nil {
				continue
			}
			w := len(mu)
			for kk := 1; kk <= 4; kk++ {
				for d := -w - 1; d <= 1; d++ {
					for _, extra := range []int{0, 1, per - 1, per} {
						pos := kk*per + d
						if pos < 0 {
							continue
						}
						// filler units must divide pos: use a single-unit filler (UCS-2 fillers are 2 octets wide)
						fill := singles[k][0]
						fw := 1
						if k == ref.KUCS2 {
							fw = 2
						}
						if pos%fw != 0 {
							continue
						}
						// prefixes whose UTF-8 length differs from their unit count in the other direction than
						// an ASCII escape's does, so that texts exist whose byte length equals (or is below / above)
						// their unit count although they contain multi-unit characters
						prefixes := []string{""}
						if k.IsGSM() && extra == 0 {
							prefixes = []string{"", "é", "€", "éé", "€é"}
						}
						for _, pre := range prefixes {
							pu, _, perr := ref.Units(k, pre)
							if perr != nil || len(pu) > pos {
								continue
							}
							// neighbours: the character right before the multi-unit character (CR / '@' matter to the
							// packed form) and the one right after it (a joiner or variation selector belongs to it visually)
							neighbours := [][2]rune{{0, 0}}
							if pre == "" {
								if k.IsGSM() {
									neighbours = append(neighbours, [2]rune{'\r', 0}, [2]rune{'@', 0})
								}
								if k == ref.KUCS2 {
									neighbours = append(neighbours, [2]rune{0, 0x200D}, [2]rune{0, 0xFE0F}, [2]rune{0, 0x0301})
								}
							}
							for _, nb := range neighbours {
								rs := []rune(pre)
								for i := 0; i < (pos-len(pu))/fw; i++ {
									rs = append(rs, fill)
								}
								if nb[0] != 0 && len(rs) > 0 {
									rs[len(rs)-1] = nb[0]
								}
								rs = append(rs, m)
								total := kk*per + extra
								u := pos + w
								if nb[1] != 0 {
									rs = append(rs, nb[1])
									u += fw
									total += 6 * fw
								}
								for ; u < total; u += fw {
									rs = append(rs, singles[k][1])
								}
								out = append(out, Case{Proto: x.proto, Coding: x.coding, Ref: byte(kk*16 + d + 8), Text: vk.Hex([]byte(string(rs))),
									Note: fmt.Sprintf("grid %v U+%04X k=%d offset=%d extra=%d prefix=%q before=%U after=%U", k, m, kk, d, extra, pre, nb[0], nb[1])})
							}
						}
					}
				}
			}
		}
	}
	// named witness of the packed GSM-7 loss
	w := ""
	for i := 0; i < 152; i++ {
		w += "a"
	}
	w += "["
	for i := 0; i < 152; i++ {
		w += "b"
	}
	out = append(out, Case{Proto: "smpp", Coding: 99, Ref: 7, Text: vk.Hex([]byte(w)), Note: "152 x a + [ + 152 x b"})
	out = append(out, unitClassCases()...)
	out = append(out, exactLimitCases()...)
	out = append(out, nearMissCases()...)
	out = append(out, mixedWidthCases()...)
	return out
}

// mixedWidthCases: GB18030 texts that mix one-, two- and four-octet characters so that simple size
// relations hold by coincidence (k four-octet characters balanced by 2k one-octet ones: the encoded length
// is exactly twice the number of characters, as for a pure two-octet text) while the two-octet characters
// sit at ODD offsets and straddle the part boundary. The same for UCS-2 with astral characters next to
// each other at the boundary (low surrogate | high surrogate).
func mixedWidthCases() []Case {
	var out []Case
	rep := func(r rune, n int) string {
		b := make([]rune, n)
		for i := range b {
			b[i] = r
		}
		return string(b)
	}
	for n := 62; n <= 72; n++ {
		for k := 1; k <= 2; k++ {
			astral := rep(0x1F600, k)
			ascii2 := rep('b', 2*k-1)
			for _, t := range []string{
				"a" + rep(0x4E2D, n) + astral + ascii2 + rep(0x6587, 80),
				"a" + astral + ascii2 + rep(0x4E2D, n+70),
				rep(0x4E2D, n) + "a" + astral + rep(0x6587, 70) + ascii2,
			} {
				out = append(out, Case{Proto: "cmpp", Coding: 15, Ref: byte(n), Text: vk.Hex([]byte(t)), Note: fmt.Sprintf("GB18030 mixed widths, encoded length = 2 x characters, n=%d k=%d", n, k)})
			}
		}
		// UCS-2: two (three) astral characters directly next to each other around the boundary at unit 67
		for _, t := range []string{rep(0x597D, n) + rep(0x1F600, 2) + rep(0x7684, 40), rep(0x597D, n) + rep(0x1F600, 3) + rep(0x7684, 40), rep('a', n) + rep(0x1F600, 4) + rep('b', 70)} {
			out = append(out, Case{Proto: "smpp", Coding: 8, Ref: byte(n), Text: vk.Hex([]byte(t)), Note: fmt.Sprintf("UCS-2 adjacent astral characters around the boundary, n=%d", n)})
			out = append(out, Case{Proto: "cmpp", Coding: 8, Ref: byte(n), Text: vk.Hex([]byte(t)), Note: fmt.Sprintf("UCS-2 adjacent astral characters around the boundary, n=%d", n)})
		}
	}
	return out
}

// nearMissCases: every character just outside an alphabetic coding's repertoire (nearMiss), alone in a
// short text and in a two-part text: the coding cannot represent it, UCS-2 must be reported and the
// character must come back unchanged.
func nearMissCases() []Case {
	var out []Case
	type pc struct {
		proto  string
		coding int
		k      ref.TextKind
	}
	for _, x := range []pc{{"smpp", 0, ref.KGSMUnpacked}, {"smpp", 99, ref.KGSMPacked}, {"smpp", 1, ref.KASCII}, {"cmpp", 0, ref.KASCII}, {"smpp", 3, ref.KLatin1}} {
		for i, r := range nearMiss[x.k] {
			if r == 0 || ref.Latin1Disputed(r) {
				continue
			}
			short := "abc" + string(r) + "def"
			out = append(out, Case{Proto: x.proto, Coding: x.coding, Ref: byte(i), Text: vk.Hex([]byte(short)), Note: fmt.Sprintf("near miss U+%04X for %v", r, x.k)})
			if i%4 == 0 {
				long := ""
				for len(long) < 100 {
					long += "Hello world "
				}
				long += string(r) + long
				out = append(out, Case{Proto: x.proto, Coding: x.coding, Ref: byte(i), Text: vk.Hex([]byte(long)), Note: fmt.Sprintf("near miss U+%04X for %v, two parts", r, x.k)})
			}
		}
	}
	return out
}

// unitClassCases: one character of EVERY code-unit class of the multi-octet codings at the first part
// boundary - UCS-2: every high octet 0x00..0xFF (surrogates as pairs), GB18030: every lead octet 0x81..0xFE
// with a low (0x40..0x7E) and a high (0x80..0xFE) trail octet and the four-octet ranges - at the offsets
// where it ends a part, straddles the boundary, and opens the next part. A cut rule that classifies units
// by a mask or a range is exercised on both sides of every class boundary.
func unitClassCases() []Case {
	var out []Case
	add := func(proto string, coding int, k ref.TextKind, r rune, note string) {
		mu, _, err := ref.Units(k, string(r))
		if err != nil {
			return
		}
		_, per := k.Limits()
		w := len(mu)
		fw := 1
		if k == ref.KUCS2 {
			fw = 2
		}
		for d := -w; d <= 0; d += fw {
			pos := per + d
			var rs []rune
			for i := 0; i < pos/fw; i++ {
				rs = append(rs, 'a')
			}
			rs = append(rs, r)
			for u := pos + w; u < per+per/2; u += fw {
				rs = append(rs, 'b')
			}
			out = append(out, Case{Proto: proto, Coding: coding, Ref: byte(d + 16), Text: vk.Hex([]byte(string(rs))),
				Note: fmt.Sprintf("unit class %s U+%04X offset=%d", note, r, d)})
			// and right after an astral / four-octet character that ends exactly at the boundary
			if d == 0 {
				am, _, aerr := ref.Units(k, string(rune(0x1F336)))
				if aerr == nil && len(am) <= pos {
					rs2 := []rune{}
					for i := 0; i < (pos-len(am))/fw; i++ {
						rs2 = append(rs2, 'a')
					}
					rs2 = append(rs2, 0x1F336, r)
					for u := pos + w; u < per+per/2; u += fw {
						rs2 = append(rs2, 'b')
					}
					out = append(out, Case{Proto: proto, Coding: coding, Ref: 99, Text: vk.Hex([]byte(string(rs2))),
						Note: fmt.Sprintf("unit class %s U+%04X right after U+1F336 ending at the boundary", note, r)})
				}
			}
		}
	}
	for h := 0; h < 256; h++ {
		if h >= 0xD8 && h <= 0xDF {
			continue
		}
		r := rune(h<<8 | 0x41)
		if h == 0 {
			r = 'A'
		}
		add("smpp", 8, ref.KUCS2, r, "UCS-2 high octet")
		if h%3 == 0 {
			add("cmpp", 8, ref.KUCS2, r, "UCS-2 high octet")
		}
		if h%3 == 1 {
			add("cmpp", 9, ref.KUCS2, r, "UCS-2 high octet")
		}
	}
	for lead := 0x81; lead <= 0xFE; lead++ {
		for _, trail := range []byte{0x40, 0x7E, 0x80, 0xA1, 0xFE} {
			if r, ok := ref.GB18030Rune([]byte{byte(lead), trail}); ok {
				add("cmpp", 15, ref.KGB18030, r, fmt.Sprintf("GB18030 %02X%02X", lead, trail))
			}
		}
	}
	for _, b := range [][]byte{{0x81, 0x30, 0x81, 0x30}, {0x81, 0x39, 0xFE, 0x39}, {0x82, 0x35, 0x8F, 0x33}, {0x84, 0x31, 0xA4, 0x39}, {0x90, 0x30, 0x81, 0x30}, {0x95, 0x32, 0x82, 0x36}, {0xE3, 0x32, 0x9A, 0x35}} {
		if r, ok := ref.GB18030Rune(b); ok {
			add("cmpp", 15, ref.KGB18030, r, fmt.Sprintf("GB18030 %x", b))
		}
	}
	return out
}

// exactLimitCases: contents whose NOMINAL size is exactly 255 parts (and one unit less) with one
// multi-unit character straddling boundary 1, 128 or 254: keeping the character whole costs a 256th part,
// so the message must be refused; one unit less fits into 255 parts.
func exactLimitCases() []Case {
	var out []Case
	type pc struct {
		proto  string
		coding int
		m      rune
	}
	for _, x := range []pc{{"smpp", 0, '['}, {"smpp", 99, '['}, {"smpp", 8, 0x1F600}, {"cmpp", 8, 0x1F600}, {"cmpp", 15, 0x4E2D}, {"cmpp", 15, 0x1F600}} {
		k, _ := KindOf(x.proto, x.coding)
		_, per := k.Limits()
		mu, _, err := ref.Units(k, string(x.m))
		if err != nil {
			continue
		}
		w := len(mu)
		fw := 1
		if k == ref.KUCS2 {
			fw = 2
		}
		for _, kk := range []int{1, 128, 254} {
			for _, short := range []int{0, fw, w} {
				pos := kk*per - fw // the character starts one unit before the boundary
				if w <= fw {
					continue
				}
				var rs []rune
				for i := 0; i < pos/fw; i++ {
					rs = append(rs, 'a')
				}
				rs = append(rs, x.m)
				for u := pos + w; u < 255*per-short; u += fw {
					rs = append(rs, 'b')
				}
				out = append(out, Case{Proto: x.proto, Coding: x.coding, Ref: byte(kk), Text: vk.Hex([]byte(string(rs))),
					Note: fmt.Sprintf("nominally 255 parts minus %d units, U+%04X straddles boundary %d", short, x.m, kk)})
			}
		}
	}
	return out
}

// Twin returns the same text and the same coding NUMBER for the other protocol family (CMPP 0 is ASCII,
// SMPP 0 is GSM 7-bit; 8 is UCS-2 in both): two calls that have nothing to do with each other but agree
// in everything a carelessly keyed memo would look at.
func Twin(c Case) Case {
	t := c
	if c.Proto == "cmpp" {
		t.Proto = "smpp"
	} else {
		t.Proto = "cmpp"
	}
	t.Note = "same text and coding number, other protocol family"
	return t
}
