// C13 — concurrent use on distinct values is race-free and equals sequential use.
// This package is built with -race by the driver.
package c13

import (
	"context"
	"crypto/sha256"
	"encoding/json"
	"fmt"
	"io"
	"os"
	"runtime"
	"strings"
	"sync"
	"sync/atomic"
	"testing"
	"time"

	sms "github.com/hujm2023/go-sms-protocol"
	"github.com/hujm2023/go-sms-protocol/cmpp"
	"github.com/hujm2023/go-sms-protocol/cmpp/cmpp20"
	dc "github.com/hujm2023/go-sms-protocol/datacoding"
	g "github.com/hujm2023/go-sms-protocol/datacoding/gsm7encoding"
	"github.com/hujm2023/go-sms-protocol/logger"
	"github.com/hujm2023/go-sms-protocol/sgip"
	"github.com/hujm2023/go-sms-protocol/smgp"
	"github.com/hujm2023/go-sms-protocol/smgp/smgp30"
	"github.com/hujm2023/go-sms-protocol/smpp"
	"github.com/hujm2023/go-sms-protocol/smpp/smpp34"
	"pgregory.net/rapid"

	"verifharness/gen"
	"verifharness/ref"
	"verifharness/vk"
)

var rec = vk.NewRecorder("C13")

func TestMain(m *testing.M) {
	logger.SetOutput(io.Discard) // the lines are still built and handed to the writer; they just do not fill the shard logs
	logger.SetOutput(io.Discard)
	code := m.Run()
	rec.Flush("all")
	os.Exit(code)
}

// Op is one library call on the goroutine's own values, described by data.
type Op struct {
	K      string     `json:"k"` // encode decode string split batch content gsm7 msgid ucs2 period
	Vals   *ref.JVals `json:"vals,omitempty"`
	Text   string     `json:"text_hex,omitempty"`
	Proto  string     `json:"proto,omitempty"`
	Coding int        `json:"coding,omitempty"`
	U      uint64     `json:"u,omitempty"`
	Yield  bool       `json:"yield,omitempty"` // runtime.Gosched() before the call
}

type Case struct {
	Procs int    `json:"gomaxprocs"`
	G     [][]Op `json:"goroutines"`
}

func digest(parts ...[]byte) string {
	h := sha256.New()
	for _, p := range parts {
		fmt.Fprintf(h, "%d:", len(p))
		h.Write(p)
	}
	return fmt.Sprintf("%x", h.Sum(nil)[:12])
}

// exec performs one call and returns a digest of everything it returned.
func exec(op Op) string {
	ctx := context.Background()
	switch op.K {
	case "encode":
		s, v := ref.FromJ(*op.Vals)
		out, err := gen.ByID(s.ID()).Fill(v).IEncode()
		return digest(out, []byte(fmt.Sprint(err)))
	case "encodebad":
		// a value that does not fit its slot: the encoder fails and must leave no trace for anybody else
		s, v := ref.FromJ(*op.Vals)
		v.F[op.Text] = []byte("this value is much too long for any fixed-width slot of any protocol ....")
		out, err := gen.ByID(s.ID()).Fill(v).IEncode()
		return digest(out, []byte(fmt.Sprint(err != nil)))
	case "decode":
		s, v := ref.FromJ(*op.Vals)
		b := gen.ByID(s.ID())
		img := ref.Encode(s, v)
		p := b.New()
		err := p.IDecode(img)
		j, _ := json.Marshal(ref.ToJ(s, b.Extract(p)))
		return digest(j, []byte(fmt.Sprint(err)))
	case "string":
		s, v := ref.FromJ(*op.Vals)
		p := gen.AsPDU(gen.ByID(s.ID()).Fill(v))
		if p == nil {
			return "-"
		}
		return digest([]byte(p.String()))
	case "split":
		text := string(vk.UnHex(op.Text))
		var parts [][]byte
		var err error
		var act int
		if op.Proto == "cmpp" {
			var a dc.CMPPDataCoding
			parts, a, err = sms.EncodeCMPPContentAndSplit(ctx, text, dc.CMPPDataCoding(op.Coding), byte(op.U))
			act = int(a)
		} else {
			var a dc.SMPPDataCoding
			parts, a, err = sms.EncodeSMPPContentAndSplit(ctx, text, dc.SMPPDataCoding(op.Coding), byte(op.U))
			act = int(a)
		}
		return digest(append(parts, []byte(fmt.Sprint(act, err)))...)
	case "batch":
		text := string(vk.UnHex(op.Text))
		pr := sms.CMPP
		list := []dc.ProtocolDataCoding{dc.CMPP_CODING_UCS2, dc.CMPP_CODING_GBK, dc.CMPP_CODING_ASCII, dc.CMPP_CODING_UCS2_NO_SIGN}
		if op.Proto == "smpp" {
			pr = sms.SMPP
			list = []dc.ProtocolDataCoding{dc.SMPP_CODING_UCS2, dc.SMPP_CODING_GSM7_PACKED, dc.SMPP_CODING_GSM7_UNPACKED, dc.SMPP_CODING_ASCII, dc.SMPP_CODING_Latin1}
		}
		if op.U&1 == 1 {
			// candidate lists as callers build them: with repeats, and with the original coding named again
			list = append(list, list[int(op.U>>1)%len(list)], list[int(op.U>>5)%len(list)])
		}
		parts, act, err := sms.NewBatchDataCodingEncoder().Protocol(pr).Content(text, byte(op.U)).DataCodings(list).Build(ctx)
		return digest(append(parts, []byte(fmt.Sprint(act, err)))...)
	case "ctorbytes":
		// the ready-made frame constructors: they take nothing but a sequence number
		seq := uint32(op.U)
		return digest(smpp34.NewEnquireLinkReqBytes(seq), smpp34.NewEnquireLinkRespBytes(seq+1), smpp34.NewUnBindBytes(seq+2), smpp34.NewUnBindRespBytes(seq+3),
			smpp34.NewDeliverySMRespBytes(seq+4), cmpp20.NewActiveTestPacket(seq+5), cmpp20.NewTerminatePacket(seq+6), smgp30.NewActiveTestPacket(seq+7),
			[]byte(fmt.Sprint(sgip.Timestamp(time.Unix(int64(1700000000+op.U%100000), 0).UTC()))))
	case "batchlong":
		// a content of more than 16 KiB with every coding of the protocol as candidate, from many goroutines at once
		text := strings.Repeat(string(vk.UnHex(op.Text))+" ", 1+17000/(len(op.Text)/2+1))
		pr := sms.CMPP
		list := []dc.ProtocolDataCoding{dc.CMPP_CODING_UCS2, dc.CMPP_CODING_GBK, dc.CMPP_CODING_ASCII, dc.CMPP_CODING_UCS2_NO_SIGN}
		if op.Proto == "smpp" {
			pr = sms.SMPP
			list = []dc.ProtocolDataCoding{dc.SMPP_CODING_UCS2, dc.SMPP_CODING_GSM7_PACKED, dc.SMPP_CODING_GSM7_UNPACKED, dc.SMPP_CODING_ASCII, dc.SMPP_CODING_Latin1}
		}
		parts, act, err := sms.NewBatchDataCodingEncoder().Protocol(pr).Content(text, byte(op.U)).DataCodings(list).Build(ctx)
		return digest(append(parts, []byte(fmt.Sprint(act, err)))...)
	case "batchlog":
		// requests on which the builder LOGS: no listed coding can represent the content (it falls back to
		// UCS-2 and says so), or nothing fits at all (it reports an error and says so). The library's logger is
		// shared by all goroutines.
		text := string(vk.UnHex(op.Text)) + "中文"
		if op.U&1 == 1 {
			text = strings.Repeat(text, 1+17200/len([]rune(text))) // UCS-2 needs more than 255 parts as well
		}
		pr := sms.CMPP
		list := []dc.ProtocolDataCoding{dc.CMPP_CODING_ASCII}
		if op.Proto == "smpp" {
			pr = sms.SMPP
			list = []dc.ProtocolDataCoding{dc.SMPP_CODING_ASCII, dc.SMPP_CODING_Latin1, dc.SMPP_CODING_GSM7_UNPACKED}
		}
		parts, act, err := sms.NewBatchDataCodingEncoder().Protocol(pr).Content(text, byte(op.U>>8)).DataCodings(list).Build(ctx)
		return digest(append(parts, []byte(fmt.Sprint(act, err)))...)
	case "content":
		text := string(vk.UnHex(op.Text))
		enc, _ := dc.UCS2([]byte(text)).Encode()
		a, e1 := sms.DecodeCMPPCContent(ctx, string(enc), 8)
		b, e2 := sms.DecodeSMPPCContent(ctx, string(enc), 8)
		c, e3 := sms.DecodeSMPPCContent(ctx, text, 0)
		// the same text as other stacks send it: with a byte-order mark, big- and little-endian
		be := append([]byte{0xfe, 0xff}, enc...)
		le := []byte{0xff, 0xfe}
		for i := 0; i+1 < len(enc); i += 2 {
			le = append(le, enc[i+1], enc[i])
		}
		d1, e4 := dc.UCS2(be).Decode()
		d2, e5 := dc.UCS2(le).Decode()
		d3, e6 := sms.DecodeCMPPCContent(ctx, string(le), 8)
		d4, e7 := sms.DecodeSMPPCContent(ctx, string(be), 8)
		return digest([]byte(a), []byte(b), []byte(c), d1, d2, []byte(d3), []byte(d4), []byte(fmt.Sprint(e1, e2, e3, e4, e5, e6, e7)))
	case "gsm7":
		text := string(vk.UnHex(op.Text))
		sep, err := g.Encode(text)
		pk := g.Pack(sep)
		un := g.Unpack(pk)
		de, e2 := g.Decode(un)
		ok := g.IsValidGSM7String(text)
		return digest(sep, pk, un, de, []byte(fmt.Sprint(err, e2, ok, len(g.ValidateGSM7String(text)))))
	case "msgid":
		a, b, c, d, e, f, gg := cmpp.SplitMsgID(op.U)
		s := cmpp.MsgID2String(op.U)
		bad := cmpp.MsgIDString2Uint64(s[:len(s)/2]) + cmpp.MsgIDString2Uint64("") + cmpp.MsgIDString2Uint64("not an id") // failing parses in between
		return digest([]byte(fmt.Sprint(a, b, c, d, e, f, gg, s, cmpp.MsgIDString2Uint64(s), cmpp.CombineMsgID(a, b, c, d, e, f, gg), bad)))
	case "names":
		// the name tables: command ids (named, defined-but-unnamed, arbitrary), statuses, headers
		id := uint32(op.U)
		if op.U>>32&3 == 0 {
			id = uint32(op.U>>34) % 0x20 // small ids: the defined range, partly without a name
		}
		if op.U>>36&1 == 1 {
			id |= 0x80000000
		}
		return digest([]byte(fmt.Sprint(cmpp.CommandID(id).String(), smgp.CommandID(id).String(), sgip.CommandID(id).String(), smpp.CMDId(id).String(),
			cmpp.Header{CommandID: cmpp.CommandID(id), SequenceID: id}.String(), smpp.Header{ID: smpp.CMDId(id), Status: smpp.CMDStatus(id % 0x120)}.String(),
			sgip.Header{CommandID: sgip.CommandID(id)}.String(), smpp.CMDStatus(id%0x500).Error(), sgip.RespStatus(id).String(), smgp.Status(id%200).String(),
			cmpp.ConnectRespResultString(uint8(id)), cmpp20.SubmitRespResultString(uint8(id)), dc.CMPPDataCoding(id%20).String(), dc.SMPPDataCoding(id%100).Priority())))
	case "ucs2":
		text := string(vk.UnHex(op.Text))
		a, _ := cmpp.Utf8ToUcs2(text)
		b := cmpp.Utf8ToUcs2Back(text)
		p := cmpp.Utf8ToUcs2Pooled(text)
		d := digest([]byte(a), []byte(b), []byte(p))
		// the caller holds its results while other goroutines keep converting: they must stay what they were
		runtime.Gosched()
		_ = cmpp.Utf8ToUcs2Pooled("x")
		if d2 := digest([]byte(a), []byte(b), []byte(p)); d2 != d {
			return "RESULT-CHANGED-WHILE-HELD " + d + " -> " + d2
		}
		return d
	case "period":
		now := time.Unix(int64(1700000000+op.U%100000), 0).UTC()
		a, e1 := smpp.ToValidatePeriod(now, fmt.Sprintf("%ds", op.U%3000000), true)
		b, e2 := smpp.ToValidatePeriod(now, fmt.Sprintf("%ds", op.U%3000000), false)
		return digest([]byte(a), []byte(b), []byte(fmt.Sprint(e1, e2)))
	}
	return "?"
}

// runCase: sequential oracle first, then the concurrent execution from a barrier.
func runCase(c Case) (v *vk.Violation, overlapped bool) {
	// The concurrent execution comes FIRST and the run-alone reference afterwards: package-level state that
	// is initialised lazily (a memo table, a cache) is then touched for the first time by racing goroutines,
	// not warmed up by the reference run.
	want := make([][]string, len(c.G))
	defer func() {
		if v != nil {
			return
		}
	}()
	old := runtime.GOMAXPROCS(c.Procs)
	defer runtime.GOMAXPROCS(old)
	got := make([][]string, len(c.G))
	var clock int64
	starts, ends := make([]int64, len(c.G)), make([]int64, len(c.G))
	var wg sync.WaitGroup
	barrier := make(chan struct{})
	for i := range c.G {
		i := i
		got[i] = make([]string, len(c.G[i]))
		wg.Add(1)
		go func() {
			defer wg.Done()
			<-barrier
			starts[i] = atomic.AddInt64(&clock, 1)
			for j, op := range c.G[i] {
				if op.Yield {
					runtime.Gosched()
				}
				got[i][j] = exec(op)
			}
			ends[i] = atomic.AddInt64(&clock, 1)
		}()
	}
	close(barrier)
	wg.Wait()
	runtime.GOMAXPROCS(old)
	for i, ops := range c.G {
		want[i] = make([]string, len(ops))
		for j, op := range ops {
			want[i][j] = exec(op)
		}
	}
	for i := range c.G {
		for k := range c.G {
			if i != k && starts[i] < ends[k] && starts[k] < ends[i] {
				overlapped = true
			}
		}
	}
	for i := range c.G {
		for j := range c.G[i] {
			if got[i][j] != want[i][j] {
				return vk.Violf("concurrent-result-differs/"+c.G[i][j].K, c, "goroutine %d call %d (%s): the concurrent run returned %s, the same call run alone returned %s", i, j, c.G[i][j].K, got[i][j], want[i][j]), overlapped
			}
		}
	}
	return nil, overlapped
}

var reg = vk.Registry{"schedule": func(raw json.RawMessage) *vk.Violation {
	var c Case
	_ = json.Unmarshal(raw, &c)
	for i := 0; i < 200; i++ { // schedule dependent: the saved history is re-run 200 times
		if v, _ := runCase(c); v != nil {
			return v
		}
	}
	return nil
}}

func TestReplay(t *testing.T) { vk.RunReplay(t, reg) }

var texts = []string{"hello world", "1234567@abcdefgh", "中文短信内容测试，需要UCS2编码。", "[escape]{and}~more^€ text", "é à ñ latin",
	"a long ascii text that needs more than one part 0123456789012345678901234567890123456789012345678901234567890123456789012345678901234567890123456789012345678901234567890123456789",
	"长短信长短信长短信长短信长短信长短信长短信长短信长短信长短信长短信长短信长短信长短信长短信长短信长短信长短信长短信长短信长短信长短信长短信长短信长短信长短信"}

// PDU types with a fixed-width text slot (an over-long value makes their encoder fail)
var fixedSlotTypes = []string{"cmpp20.PduSubmit", "cmpp20.PduDeliver", "cmpp20.PduConnect", "cmpp30.Submit", "cmpp30.Deliver", "sgip12.Submit", "sgip12.Bind", "smgp30.Submit", "smgp30.Login", "smgp30.Deliver", "cmpp20.PduQuery"}

// a content for which UCS-2 needs more than 255 parts while the GSM-7 / ASCII codings do not
var overflowText = strings.Repeat("a", 17200)

// hugeText: more than 32768 UTF-16 units (the pooled conversion buffer grows beyond 64 KiB)
var hugeText = strings.Repeat("0123456789abcdef中", 2100)

var opGen = rapid.Custom(func(t *rapid.T) Op {
	k := rapid.SampledFrom([]string{"encode", "encode", "encodebad", "decode", "decode", "string", "string", "split", "batch", "batchlog", "content", "gsm7", "msgid", "names", "names", "ucs2", "period", "ctorbytes"}).Draw(t, "k")
	op := Op{K: k, U: rapid.Uint64().Draw(t, "u"), Yield: rapid.IntRange(0, 3).Draw(t, "yield") == 0}
	switch k {
	case "encodebad":
		b := gen.ByID(rapid.SampledFrom(fixedSlotTypes).Draw(t, "badtype"))
		j := ref.ToJ(b.Spec, gen.DrawVals(t, b, gen.Opts{NoTails: true}))
		op.Vals = &j
		for _, f := range b.Spec.Fields {
			if f.Kind == ref.FixStr {
				op.Text = f.Name // the field that will not fit
				break
			}
		}
	case "encode", "decode", "string":
		b := gen.DrawBinding(t, false)
		j := ref.ToJ(b.Spec, gen.DrawVals(t, b, gen.Opts{MaxTriplets: 1})) // one parameter at most: output independent of map order
		op.Vals = &j
	default:
		op.Text = vk.Hex([]byte(rapid.SampledFrom(texts).Draw(t, "text")))
		if k == "ucs2" && rapid.IntRange(0, 19).Draw(t, "huge") == 0 {
			op.Text = vk.Hex([]byte(hugeText))
		}
		if k == "batch" && rapid.IntRange(0, 4).Draw(t, "overflow") == 0 {
			op.Text = vk.Hex([]byte(overflowText)) // one candidate fails with 'too many parts' while its siblings run
		}
		op.Proto = rapid.SampledFrom([]string{"cmpp", "smpp"}).Draw(t, "proto")
		if op.Proto == "cmpp" {
			op.Coding = rapid.SampledFrom([]int{0, 8, 9, 15}).Draw(t, "coding")
		} else {
			op.Coding = rapid.SampledFrom([]int{0, 1, 3, 8, 99}).Draw(t, "coding")
		}
	}
	return op
})

func TestConcurrent(t *testing.T) {
	rec.RunProbes(t, reg)
	rec.RunRegress(t, reg)
	rapid.Check(t, func(t *rapid.T) {
		c := Case{Procs: rapid.SampledFrom([]int{1, 2, 4, 8, 16}).Draw(t, "gomaxprocs")}
		ng := rapid.OneOf(rapid.IntRange(2, 8), rapid.IntRange(2, 64)).Draw(t, "goroutines")
		for i := 0; i < ng; i++ {
			n := rapid.IntRange(5, 40).Draw(t, "ncalls")
			if ng <= 8 {
				n = rapid.IntRange(5, 100).Draw(t, "ncallsbig")
			}
			c.G = append(c.G, rapid.SliceOfN(opGen, n, n).Draw(t, fmt.Sprintf("g%d", i)))
		}
		// hot values: in half of the cases the numeric arguments (message ids, references, name-table ids) come
		// from a pool of three values shared by all goroutines, so that calls repeat each other's and their own
		// most recent arguments - what a memo or a last-result cache needs to be hit
		if rapid.Bool().Draw(t, "hotvalues") {
			hot := rapid.SliceOfN(rapid.Uint64(), 3, 3).Draw(t, "hot")
			for i := range c.G {
				for j := range c.G[i] {
					if sel := rapid.IntRange(0, 3).Draw(t, "hotsel"); sel < 3 {
						c.G[i][j].U = hot[sel]
					}
				}
			}
			rec.Class("hot_value_pool")
		}
		v, overlapped := runCase(c)
		rec.Eval()
		if overlapped {
			j, _ := json.Marshal(c)
			rec.NonTrivial("sched", j)
			rec.Class("execution_windows_overlapped")
		}
		rec.Class(fmt.Sprintf("gomaxprocs=%d", c.Procs))
		for _, ops := range c.G {
			for _, op := range ops {
				if op.K == "batch" {
					rec.Class("batch_build_inside_goroutine")
				}
			}
		}
		if ng <= 2 && len(c.G[0]) <= 6 {
			rec.Sample("schedule", c)
		}
		rec.Report(t, "schedule", v)
	})
}

// HotCase: G goroutines call the SAME few operations (2..3 argument sets of one kind) in tight loops, each
// goroutine starting at another one, so that every call repeats what another goroutine has just done or is
// doing: the access pattern a memo, a last-result cache or a scratch buffer keyed by its argument needs
// to go wrong, and which sequences of unrelated calls almost never produce.
type HotCase struct {
	Procs int  `json:"gomaxprocs"`
	G     int  `json:"goroutines"`
	Iters int  `json:"iterations"`
	Ops   []Op `json:"ops"`
}

func runHot(c HotCase) *vk.Violation {
	old := runtime.GOMAXPROCS(c.Procs)
	defer runtime.GOMAXPROCS(old)
	seen := make([][]map[string]int, c.G)
	var wg sync.WaitGroup
	barrier := make(chan struct{})
	for gi := 0; gi < c.G; gi++ {
		gi := gi
		seen[gi] = make([]map[string]int, len(c.Ops))
		for k := range seen[gi] {
			seen[gi][k] = map[string]int{}
		}
		wg.Add(1)
		go func() {
			defer wg.Done()
			<-barrier
			for i := 0; i < c.Iters; i++ {
				k := (i + gi) % len(c.Ops)
				seen[gi][k][exec(c.Ops[k])]++
				hotProgress.Add(1)
			}
		}()
	}
	close(barrier)
	wg.Wait()
	runtime.GOMAXPROCS(old)
	for k, op := range c.Ops {
		want := exec(op)
		for gi := range seen {
			for d, n := range seen[gi][k] {
				if d != want {
					return vk.Violf("concurrent-result-differs/hot-loop/"+op.K, c, "goroutine %d, operation %d (%s) repeated by %d goroutines: %d of its calls returned %s, the same call run alone returns %s", gi, k, op.K, c.G, n, d, want)
				}
			}
		}
	}
	return nil
}

// hotProgress counts completed calls of the running hot loop. A loop is "stuck" when NO call of ANY of its
// goroutines completes during 24 consecutive five-second polls (calls that return at once when run alone
// wait for each other inside the library). Progress, not elapsed time, is the criterion: a loaded machine
// makes the loop slow, never motionless, and a suspended VM costs at most one poll.
var hotProgress atomic.Int64

func runHotTimed(c HotCase) *vk.Violation {
	done := make(chan *vk.Violation, 1)
	go func() {
		defer func() {
			if r := recover(); r != nil {
				done <- vk.Violf("hot-loop/panic", c, "panic: %v", r)
			}
		}()
		done <- runHot(c)
	}()
	last, idle := hotProgress.Load(), 0
	for {
		select {
		case v := <-done:
			return v
		case <-time.After(5 * time.Second):
			if now := hotProgress.Load(); now != last {
				last, idle = now, 0
				continue
			}
			idle++
			if idle >= 24 {
				kind := "?"
				if len(c.Ops) > 0 {
					kind = c.Ops[0].K
				}
				return vk.Violf("hot-loop/"+kind+"/goroutines-stuck", c, "%d goroutines calling %s concurrently: not one call completed during %d consecutive 5 s polls - calls that return at once when run alone wait for each other inside the library", c.G, kind, idle)
			}
		}
	}
}

func init() {
	reg["hot"] = func(raw json.RawMessage) *vk.Violation {
		var c HotCase
		_ = json.Unmarshal(raw, &c)
		for i := 0; i < 20; i++ {
			if v := runHotTimed(c); v != nil {
				return v
			}
		}
		return nil
	}
}

func TestHotLoops(t *testing.T) {
	rapid.Check(t, func(t *rapid.T) {
		kind := rapid.SampledFrom([]string{"msgid", "msgid", "names", "period", "ucs2", "gsm7", "content", "split", "string", "encode", "batchlog", "ctorbytes", "ctorbytes", "batchlong"}).Draw(t, "kind")
		c := HotCase{Procs: rapid.SampledFrom([]int{2, 4, 8, 16}).Draw(t, "gomaxprocs"), G: rapid.SampledFrom([]int{2, 3, 4, 8}).Draw(t, "goroutines")}
		n := rapid.IntRange(2, 3).Draw(t, "nops")
		for len(c.Ops) < n {
			op := opGen.Draw(t, "op")
			if op.K != kind {
				op.K = kind
				switch kind {
				case "msgid", "names", "period":
				case "string", "encode":
					b := gen.DrawBinding(t, false)
					j := ref.ToJ(b.Spec, gen.DrawVals(t, b, gen.Opts{MaxTriplets: 1}))
					op.Vals = &j
				default:
					op.Text = vk.Hex([]byte(rapid.SampledFrom(texts[:5]).Draw(t, "text")))
					op.Proto = rapid.SampledFrom([]string{"cmpp", "smpp"}).Draw(t, "proto")
					op.Coding = 8
				}
			}
			if (kind == "ucs2" || kind == "split") && len(op.Text) > 2000 {
				op.Text = vk.Hex([]byte(texts[0]))
			}
			if kind == "ucs2" && len(c.Ops) == 0 && rapid.IntRange(0, 2).Draw(t, "hothuge") == 0 {
				// one conversion above 32768 UTF-16 units next to short ones: the pooled buffer grows past 64 KiB
				// and is then handed to the short conversions of the other goroutines
				op.Text = vk.Hex([]byte(hugeText))
			}
			op.Yield = false
			c.Ops = append(c.Ops, op)
		}
		c.Iters = map[string]int{"msgid": 5000, "names": 800, "period": 2000, "batchlog": 30, "ctorbytes": 1200, "batchlong": 3}[kind]
		if kind == "batchlong" {
			c.G = rapid.SampledFrom([]int{48, 64}).Draw(t, "manygoroutines") // the top of the stated range of 2..64 goroutines
		}
		if c.Iters == 0 {
			c.Iters = 250
		}
		for _, op := range c.Ops {
			if len(op.Text) > 100000 {
				c.Iters = 12
			}
		}
		rec.Eval()
		j, _ := json.Marshal(c)
		rec.NonTrivial("hot", j)
		rec.Class("hot_loop:" + kind)
		rec.Report(t, "hot", runHotTimed(c))
	})
}
