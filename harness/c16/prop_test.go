// C16 — optional-parameter containers (SMPP TLV, SMGP options) are lossless and safe.
package c16

import (
	"bytes"
	"encoding/binary"
	"encoding/json"
	"fmt"
	"os"
	"reflect"
	"testing"

	"github.com/hujm2023/go-sms-protocol/packet"
	"github.com/hujm2023/go-sms-protocol/smgp"
	"github.com/hujm2023/go-sms-protocol/smpp"
	"pgregory.net/rapid"

	"verifharness/gen"
	"verifharness/ref"
	"verifharness/vk"
)

var rec = vk.NewRecorder("C16")

func TestMain(m *testing.M) {
	vk.Disturb = gen.Disturb
	code := m.Run()
	rec.Flush("all")
	os.Exit(code)
}

// ---- adapters: the four parsers as functions from bytes to (map, accepted)

type parsed struct {
	m  map[uint16][]byte
	ok bool // the parser returned a container (possibly empty/nil map with no error)
}

func tlvMap(t smpp.TLVs) map[uint16][]byte {
	m := map[uint16][]byte{}
	for k, v := range t {
		m[k] = v.Value()
	}
	return m
}
func optMap(o smgp.Options) map[uint16][]byte {
	m := map[uint16][]byte{}
	for k, v := range o {
		m[uint16(k)] = v.Value()
	}
	return m
}

var marker = []byte{0xBE, 0xEF}

var parsers = []struct {
	name   string
	f      func(b []byte) parsed
	mutate func(b []byte) // parse b and add a marker parameter (tag 0xBEEF) to the returned container
}{
	{"smpp.ReadTLVs", func(b []byte) parsed {
		t, err := smpp.ReadTLVs(packet.NewPacketReader(b))
		return parsed{tlvMap(t), err == nil}
	}, func(b []byte) {
		t, _ := smpp.ReadTLVs(packet.NewPacketReader(b))
		t.SetTLV(smpp.NewTLV(0xBEEF, marker))
	}},
	{"smpp.ReadTLVs1", func(b []byte) parsed {
		r := packet.NewPacketReader(b)
		t := smpp.ReadTLVs1(r)
		return parsed{tlvMap(t), t != nil || len(b) == 0}
	}, func(b []byte) {
		t := smpp.ReadTLVs1(packet.NewPacketReader(b))
		t.SetTLV(smpp.NewTLV(0xBEEF, marker))
	}},
	{"smgp.ParseOptions", func(b []byte) parsed {
		o, err := smgp.ParseOptions(b)
		return parsed{optMap(o), err == nil}
	}, func(b []byte) {
		o, _ := smgp.ParseOptions(b)
		o.Add(smgp.NewOption(0xBEEF, marker))
	}},
	{"smgp.ReadOptions", func(b []byte) parsed {
		r := packet.NewPacketReader(b)
		o := smgp.ReadOptions(r)
		return parsed{optMap(o), o != nil || len(b) == 0}
	}, func(b []byte) {
		o := smgp.ReadOptions(packet.NewPacketReader(b))
		o.Add(smgp.NewOption(0xBEEF, marker))
	}},
}

type SetCase struct {
	Triplets []ref.JTriplet `json:"triplets"`
}

func (c SetCase) triplets() []ref.Triplet {
	var ts []ref.Triplet
	for _, t := range c.Triplets {
		ts = append(ts, ref.Triplet{Tag: t.Tag, Val: vk.UnHex(t.Val)})
	}
	return ts
}

func jt(ts []ref.Triplet) []ref.JTriplet {
	out := []ref.JTriplet{}
	for _, t := range ts {
		out = append(out, ref.JTriplet{Tag: t.Tag, Val: vk.Hex(t.Val)})
	}
	return out
}

func guard(kind string, c any, f func()) string {
	return vk.Guarded(kind, kind+"/hang", func() any { return c }, f)
}

// checkSet: a set with distinct tags (values <= 65531) serialises to triplets
// whose parse yields the same set, whatever order the serialiser emits.
func checkSet(c SetCase) *vk.Violation {
	ts := c.triplets()
	want := ref.TripletMap(ts)
	var viol *vk.Violation
	pn := guard("set", c, func() {
		var tl smpp.TLVs
		var op smgp.Options
		for i, t := range ts {
			x := smpp.NewTLV(t.Tag, t.Val)
			if i%2 == 1 {
				x = smpp.NewTLVByString(t.Tag, string(t.Val)) // the second constructor
			}
			o := smgp.NewOption(smgp.Tag(t.Tag), t.Val)
			_, _ = x.IsEmpty(), o.IsEmpty() // must not panic; what counts as 'empty' is not part of the property
			tl.SetTLV(x)
			op.Add(o)
		}
		// adding to an empty container takes effect
		if len(tl) != len(want) {
			viol = vk.Violf("smpp.TLVs.SetTLV/add-to-empty-lost", c, "after %d SetTLV calls on a nil TLVs the container holds %d parameters", len(ts), len(tl))
			return
		}
		if len(op) != len(want) {
			viol = vk.Violf("smgp.Options.Add/add-to-empty-lost", c, "after %d Add calls on a nil Options the container holds %d parameters", len(ts), len(op))
			return
		}
		// what the accessors hand out belongs to the caller: overwriting it must not reach the container
		for tag, x := range tl {
			b := x.Bytes()
			for i := range b {
				b[i] ^= 0xFF
			}
			if !bytes.Equal(tl[tag].Value(), want[tag]) {
				viol = vk.Violf("smpp.TLV.Bytes/result-aliases-container", c, "overwriting the slice TLV.Bytes() returned changed the parameter (tag %#04x) inside the container", tag)
				return
			}
		}
		for tag, x := range op {
			b := x.Bytes()
			for i := range b {
				b[i] ^= 0xFF
			}
			if !bytes.Equal(op[tag].Value(), want[uint16(tag)]) {
				viol = vk.Violf("smgp.Option.Bytes/result-aliases-container", c, "overwriting the slice Option.Bytes() returned changed the parameter (tag %#04x) inside the container", uint16(tag))
				return
			}
		}
		for rep := 0; rep < 4; rep++ {
			for ci, ser := range [][]byte{tl.Bytes(), op.Serialize()} {
				vk.Retain([]string{"smpp.TLVs.Bytes", "smgp.Options.Serialize"}[ci], ser)
				cont := []string{"smpp.TLVs.Bytes", "smgp.Options.Serialize"}[ci]
				got, _, clean := ref.ParseTriplets(ser)
				if !clean {
					viol = vk.Violf(cont+"/not-triplets", c, "%s emitted bytes that are not a clean triplet sequence: %x", cont, clipb(ser))
					return
				}
				if d := ref.DiffTripletSets(want, ref.TripletMap(got)); d != "" || len(got) != len(want) {
					viol = vk.Violf(cont+"/serialised-set-differs", c, "%s: emitted set differs from the container: %s", cont, d)
					return
				}
				if rep == 0 && len(ser) > 0 {
					// the same for containers that come out of the parsers (decoded PDUs are built from these)
					if ci == 0 {
						pt, _ := smpp.ReadTLVs(packet.NewPacketReader(append([]byte{}, ser...)))
						for tag, x := range pt {
							b := x.Bytes()
							for i := range b {
								b[i] ^= 0xFF
							}
							if !bytes.Equal(pt[tag].Value(), want[tag]) {
								viol = vk.Violf("smpp.TLV.Bytes/result-aliases-parsed-container", c, "overwriting TLV.Bytes() of a parsed parameter (tag %#04x) changed the parsed container", tag)
								return
							}
						}
					} else {
						for _, parse := range []func() smgp.Options{
							func() smgp.Options { o, _ := smgp.ParseOptions(append([]byte{}, ser...)); return o },
							func() smgp.Options { return smgp.ReadOptions(packet.NewPacketReader(append([]byte{}, ser...))) }} {
							po := parse()
							for tag, x := range po {
								b := x.Bytes()
								for i := range b {
									b[i] ^= 0xFF
								}
								if !bytes.Equal(po[tag].Value(), want[uint16(tag)]) {
									viol = vk.Violf("smgp.Option.Bytes/result-aliases-parsed-container", c, "overwriting Option.Bytes() of a parsed option (tag %#04x) changed the parsed container", uint16(tag))
									return
								}
							}
						}
					}
				}
				for _, p := range parsers[2*ci : 2*ci+2] {
					r := p.f(ser)
					if !r.ok {
						viol = vk.Violf(p.name+"/rejects-own-serialisation", c, "%s rejected the bytes of %s", p.name, cont)
						return
					}
					if d := ref.DiffTripletSets(want, r.m); d != "" {
						viol = vk.Violf(p.name+"/round-trip", c, "%s(%s(set)) differs from the set: %s", p.name, cont, d)
						return
					}
					// the parsed values belong to the caller, one by one and including their spare capacity: appending
					// to one of them (writing behind its length) must not reach another parameter of the set
					var vals [][]byte
					var tags []uint16
					for tag, val := range r.m {
						vals, tags = append(vals, val), append(tags, tag)
					}
					if i, j, sh := vk.SharedSpare(vals); sh {
						viol = vk.Violf(p.name+"/values-share-memory", c, "%s: writing into the spare capacity of the value of tag %#04x changed the value of tag %#04x of the same parsed set", p.name, tags[i], tags[j])
						return
					}
					// ... and the caller may edit them in place when it is done: later parses must not see it
					for _, val := range vals {
						vk.Overwrite(val)
					}
				}
			}
		}
		if op.Len() != len(op.Serialize()) {
			viol = vk.Violf("smgp.Options.Len/disagrees-with-Serialize", c, "Options.Len() = %d, len(Serialize()) = %d", op.Len(), len(op.Serialize()))
		}
	})
	if pn != "" {
		return vk.Violf("set/panic", c, "panic\n%s", pn)
	}
	return viol
}

type BytesCase struct {
	Data string `json:"data_hex"`
}

// checkBytes: on ANY byte string the four parsers neither panic nor hang, never
// report a parameter that is not completely present at a triplet boundary, and
// on a well-formed triplet sequence both parsers of a container return the
// reference map (last duplicate wins).
func checkBytes(c BytesCase) *vk.Violation {
	b := vk.UnHex(c.Data)
	complete, _, clean := ref.ParseTriplets(b)
	var viol *vk.Violation
	for _, p := range parsers {
		p := p
		var r parsed
		if pn := guard("bytes", c, func() { r = p.f(append([]byte{}, b...)) }); pn != "" {
			return vk.Violf(p.name+"/panic", c, "%s(%x) panicked\n%s", p.name, clipb(b), pn)
		}
		for tag, val := range r.m {
			found := false
			for _, t := range complete {
				if t.Tag == tag && bytes.Equal(t.Val, val) {
					found = true
				}
			}
			if !found {
				return vk.Violf(p.name+"/fabricated-parameter", c, "%s(%x) reports tag %#04x = %x, which is not completely present at a triplet boundary of the input", p.name, clipb(b), tag, clipb(val))
			}
		}
		// whatever the caller does to the container it got (add a parameter), a later parse of the same input
		// must report what the input holds and nothing else: containers are not shared between calls
		if r.ok {
			if pn := guard("bytes", c, func() { p.mutate(append([]byte{}, b...)) }); pn != "" {
				return vk.Violf(p.name+"/add-after-parse-panics", c, "adding to the container returned by %s panicked\n%s", p.name, pn)
			}
			again := p.f(append([]byte{}, b...))
			if _, has := again.m[0xBEEF]; has {
				if _, inInput := ref.TripletMap(complete)[0xBEEF]; !inInput {
					return vk.Violf(p.name+"/container-shared-between-calls", c, "%s(%x): a parameter the caller added to the container of an earlier call (tag 0xBEEF) is reported by a later call although it is not in the input", p.name, clipb(b))
				}
			}
		}
		if clean {
			if !r.ok {
				return vk.Violf(p.name+"/rejects-well-formed", c, "%s rejected a well-formed triplet sequence %x", p.name, clipb(b))
			}
			if d := ref.DiffTripletSets(ref.TripletMap(complete), r.m); d != "" {
				return vk.Violf(p.name+"/well-formed-sequence", c, "%s(%x) differs from the sequential reference parse: %s", p.name, clipb(b), d)
			}
		}
	}
	return viol
}

type BigCase struct {
	Tag  uint16 `json:"tag"`
	Len  int    `json:"len"`
	Seed uint64 `json:"seed"`
}

// checkBig: a value around / above the 16-bit length limit is refused or
// truncated consistently: no panic, and in the emitted bytes the length field
// equals the number of value octets that follow.
func checkBig(c BigCase) *vk.Violation {
	sm := vk.SplitMix(c.Seed)
	val := make([]byte, c.Len)
	for i := range val {
		val[i] = byte(sm.Next())
	}
	var viol *vk.Violation
	for ci, cont := range []string{"smpp.TLV.Bytes", "smgp.Option.Bytes"} {
		var ser, all []byte
		var optLen, optSerLen int
		pn := guard("big", c, func() {
			if ci == 0 {
				ser = smpp.NewTLV(c.Tag, val).Bytes()
				var tl smpp.TLVs
				tl.SetTLV(smpp.NewTLV(c.Tag, val))
				all = tl.Bytes()
			} else {
				ser = smgp.NewOption(smgp.Tag(c.Tag), val).Bytes()
				op := smgp.Options{}
				op.Add(smgp.NewOption(smgp.Tag(c.Tag), val))
				all = op.Serialize()
				optLen, optSerLen = op.Len(), len(all)
			}
		})
		if pn != "" {
			return vk.Violf(cont+"/oversized-value-panics", c, "%s panicked on a value of %d octets\n%s", cont, c.Len, pn)
		}
		for _, out := range [][]byte{ser, all} {
			if len(out) == 0 {
				continue // refused
			}
			if len(out) < 4 {
				return vk.Violf(cont+"/oversized-value-garbage", c, "%s emitted %d octets for a value of %d octets", cont, len(out), c.Len)
			}
			l := int(binary.BigEndian.Uint16(out[2:4]))
			if l != len(out)-4 {
				return vk.Violf(cont+"/length-field-disagrees-with-value", c, "%s: value of %d octets: length field says %d, %d value octets follow", cont, c.Len, l, len(out)-4)
			}
			if c.Len <= 65535 && l != c.Len {
				return vk.Violf(cont+"/value-that-fits-is-truncated", c, "%s: a value of %d octets fits the 16-bit length field but %d octets were emitted", cont, c.Len, l)
			}
			if binary.BigEndian.Uint16(out[0:2]) != c.Tag || !bytes.HasPrefix(val, out[4:]) {
				return vk.Violf(cont+"/oversized-value-altered", c, "%s: emitted tag/value are not the given tag and a prefix of the given value", cont)
			}
		}
		if c.Len <= 65535 && len(all) > 0 {
			for _, p := range parsers[2*ci : 2*ci+2] {
				r := p.f(all)
				if got, ok := r.m[c.Tag]; !r.ok || !ok || !bytes.Equal(got, val) {
					return vk.Violf(p.name+"/boundary-size-round-trip", c, "%s(%s) does not return the %d-octet value that was put in (accepted=%v, got %d octets)", p.name, cont, c.Len, r.ok, len(got))
				}
			}
		}
		if ci == 1 && optLen != optSerLen {
			return vk.Violf("smgp.Options.Len/disagrees-with-Serialize", c, "value of %d octets: Options.Len() = %d, len(Serialize()) = %d", c.Len, optLen, optSerLen)
		}
	}
	return viol
}

type AccCase struct {
	ValLen int `json:"val_len"`
}

// checkAccessor: typed accessors tolerate values shorter than they expect.
func checkAccessor(c AccCase) *vk.Violation {
	val := make([]byte, c.ValLen)
	for i := range val {
		val[i] = byte(i + 1)
	}
	op := smgp.Options{}
	op.Add(smgp.NewOption(smgp.TAG_TP_udhi, val))
	var got uint8
	if pn := guard("accessor", c, func() { got = op.TP_udhi() }); pn != "" {
		return vk.Violf("smgp.Options.TP_udhi/short-value-panics", c, "TP_udhi() panicked on a value of %d octets\n%s", c.ValLen, pn)
	}
	if c.ValLen >= 1 && got != val[0] {
		return vk.Violf("smgp.Options.TP_udhi/value", c, "TP_udhi() = %d, the parameter's first octet is %d", got, val[0])
	}
	var none smgp.Options
	if pn := guard("accessor", c, func() { _ = none.TP_udhi(); _ = none.Len(); _ = none.Serialize(); _ = none.String() }); pn != "" {
		return vk.Violf("smgp.Options/nil-container-panics", c, "accessors panicked on a nil Options\n%s", pn)
	}
	return nil
}

var reg = vk.Registry{
	"set": func(raw json.RawMessage) *vk.Violation {
		var c SetCase
		_ = json.Unmarshal(raw, &c)
		return checkSet(c)
	},
	"bytes": func(raw json.RawMessage) *vk.Violation {
		var c BytesCase
		_ = json.Unmarshal(raw, &c)
		return checkBytes(c)
	},
	"big": func(raw json.RawMessage) *vk.Violation {
		var c BigCase
		_ = json.Unmarshal(raw, &c)
		return checkBig(c)
	},
	"accessor": func(raw json.RawMessage) *vk.Violation {
		var c AccCase
		_ = json.Unmarshal(raw, &c)
		return checkAccessor(c)
	},
}

func init() { reg["sequence"] = vk.SequenceReplayer(reg) }

func TestReplay(t *testing.T) { vk.RunReplay(t, reg) }

func clipb(b []byte) []byte {
	if len(b) > 40 {
		return b[:40]
	}
	return b
}

var sizes = []int{0, 1, 2, 255, 256, 65531, 4095, 4096, 4097, 32767, 32768}

func drawSet(t *rapid.T, big bool) []ref.Triplet {
	if rapid.IntRange(0, 3).Draw(t, "specshaped") == 0 {
		// parameter sets as peers send them: the specification's tags with the sizes and kinds of values
		// the specification gives them (the three segmentation parameters together, counters 1..4)
		return gen.DrawTriplets(t, gen.Opts{}, "spec")
	}
	n := rapid.OneOf(rapid.IntRange(0, 4), rapid.IntRange(0, 32)).Draw(t, "n")
	tags := rapid.SliceOfNDistinct(gen.TagGen, n, n, rapid.ID[uint16]).Draw(t, "tags")
	ts := make([]ref.Triplet, n)
	budget := 2
	for i, tag := range tags {
		var l int
		switch cls := rapid.IntRange(0, 9).Draw(t, fmt.Sprintf("cls%d", i)); {
		case cls == 0 && big && budget > 0:
			l = rapid.SampledFrom([]int{65531, 65530, 40000, 32768, 32767, 16384}).Draw(t, fmt.Sprintf("big%d", i))
			budget--
		case cls == 1:
			l = rapid.SampledFrom(sizes[:5]).Draw(t, fmt.Sprintf("edge%d", i))
		case cls == 2 && big && budget > 0:
			l = rapid.SampledFrom(sizes[6:]).Draw(t, fmt.Sprintf("pow2%d", i))
			budget--
		default:
			l = rapid.IntRange(0, 24).Draw(t, fmt.Sprintf("len%d", i))
		}
		ts[i] = ref.Triplet{Tag: tag, Val: gen.BodyBytes(t, l, fmt.Sprintf("val%d", i))}
	}
	return ts
}

func TestSets(t *testing.T) {
	rec.RunProbes(t, reg)
	rec.RunRegress(t, reg)
	rapid.Check(t, func(t *rapid.T) {
		ts := drawSet(t, true)
		c := SetCase{jt(ts)}
		rec.Eval()
		boundary := false
		for _, x := range ts {
			if len(x.Val) >= 255 {
				boundary = true
			}
		}
		if len(ts) >= 2 || boundary {
			rec.NonTrivial("set", ref.EncodeTriplets(ts))
			rec.Class("set_ge2_or_boundary_value")
		}
		if len(ts) <= 4 {
			rec.Sample("set", c)
		}
		rec.ReportSeq(t, "set", c, func() *vk.Violation { return checkSet(c) })
	})
}

func TestByteStrings(t *testing.T) {
	rapid.Check(t, func(t *rapid.T) {
		var b []byte
		kind := rapid.IntRange(0, 5).Draw(t, "shape")
		switch kind {
		case 0: // arbitrary
			b = rapid.SliceOfN(rapid.Byte(), 0, 64).Draw(t, "bytes")
		case 1: // well-formed sequence in any order with duplicate tags
			n := rapid.IntRange(0, 8).Draw(t, "n")
			if rapid.IntRange(0, 4).Draw(t, "manytags") == 0 {
				// far more distinct tags than any specification defines
				m := rapid.IntRange(33, 300).Draw(t, "m")
				base := rapid.Uint16().Draw(t, "basetag")
				var ts []ref.Triplet
				for i := 0; i < m; i++ {
					ts = append(ts, ref.Triplet{Tag: base + uint16(i*7), Val: []byte{byte(i)}})
				}
				b = ref.EncodeTriplets(ts)
				rec.Class("well_formed_with_more_than_32_distinct_tags")
				break
			}
			var ts []ref.Triplet
			for i := 0; i < n; i++ {
				ts = append(ts, ref.Triplet{Tag: rapid.Uint16Range(0, 6).Draw(t, "tag"), Val: rapid.SliceOfN(rapid.Byte(), 0, 6).Draw(t, "val")})
			}
			b = ref.EncodeTriplets(ts)
			rec.Class("well_formed_with_possible_duplicates")
		default: // a well-formed prefix followed by a damaged triplet
			ts := drawSet(t, false)
			if len(ts) > 6 {
				ts = ts[:6]
			}
			b = ref.EncodeTriplets(ts)
			tail := ref.EncodeTriplets([]ref.Triplet{{Tag: rapid.Uint16().Draw(t, "ttag"), Val: rapid.SliceOfN(rapid.Byte(), 0, 12).Draw(t, "tval")}})
			switch kind {
			case 2: // truncated in tag / length / value
				cut := rapid.IntRange(0, len(tail)).Draw(t, "cut")
				b = append(b, tail[:cut]...)
			case 3: // length field larger than what follows (incl. value entirely missing)
				binary.BigEndian.PutUint16(tail[2:4], uint16(len(tail)-4+rapid.IntRange(1, 70000).Draw(t, "excess")))
				if rapid.Bool().Draw(t, "dropvalue") {
					tail = tail[:4]
				}
				b = append(b, tail...)
			case 4: // zero-length value at the very end
				b = append(b, byte(rapid.Uint16().Draw(t, "ztag")>>8), 7, 0, 0)
			default: // 4 KiB of noise after a valid prefix
				b = append(b, gen.BodyBytes(t, rapid.IntRange(0, 4096).Draw(t, "noise"), "noisebytes")...)
			}
		}
		c := BytesCase{vk.Hex(b)}
		rec.Eval()
		comp, stop, clean := ref.ParseTriplets(b)
		if len(comp) >= 1 && !clean && stop < len(b) {
			rec.NonTrivial("bytes", b)
			rec.Class("complete_triplet_followed_by_partial")
		}
		if clean && len(comp) >= 2 {
			rec.NonTrivial("bytes", b)
		}
		if len(b) <= 40 {
			rec.Sample("bytes", c)
		}
		rec.ReportSeq(t, "bytes", c, func() *vk.Violation { return checkBytes(c) })
	})
}

func TestOversizedAndAccessors(t *testing.T) {
	env := rec.Env()
	if env.Shard == 0 {
		for _, l := range []int{65530, 65531, 65532, 65533, 65534, 65535, 65536, 65537, 70000, 131072} {
			for _, tag := range []uint16{0, 2, 0x0424, 0xffff} {
				c := BigCase{Tag: tag, Len: l, Seed: uint64(l)}
				rec.Eval()
				rec.NonTrivialConstructed(1)
				rec.Class("oversized_value")
				rec.Report(t, "big", checkBig(c))
			}
		}
		for l := 0; l <= 3; l++ {
			rec.Eval()
			rec.Report(t, "accessor", checkAccessor(AccCase{l}))
		}
		rec.Sample("big", BigCase{Tag: 0x0424, Len: 65532, Seed: 65532})
	}
	rapid.Check(t, func(t *rapid.T) {
		c := BigCase{Tag: rapid.Uint16().Draw(t, "tag"), Len: rapid.OneOf(rapid.IntRange(65000, 70000), rapid.IntRange(0, 140000)).Draw(t, "len"), Seed: rapid.Uint64().Draw(t, "seed")}
		rec.Eval()
		if c.Len > 65531 {
			rec.NonTrivial("big", c.Tag, c.Len)
		}
		rec.Report(t, "big", checkBig(c))
	})
	_ = reflect.TypeOf
}

// FuzzParsers: coverage-guided byte strings through the four parsers with the
// no-fabrication / agreement oracle (thorough tier only).
func FuzzParsers(f *testing.F) {
	f.Add([]byte{})
	f.Add([]byte{0, 1, 0, 0})
	f.Add([]byte{0, 1, 0, 2, 0xaa, 0xbb, 0, 1, 0, 1, 0xcc})
	f.Add([]byte{0x02, 0x04, 0xff, 0xff, 1, 2, 3})
	f.Add([]byte{0, 2, 0, 1})
	f.Add([]byte{0, 2, 0})
	f.Fuzz(func(t *testing.T, data []byte) {
		if len(data) > 1<<16 {
			return
		}
		if v := checkBytes(BytesCase{vk.Hex(data)}); v != nil {
			if vk.IsKnown("C16", v.Key) {
				return
			}
			path := rec.WriteReplay("bytes", v)
			t.Fatalf("VIOLATION-CASE property=C16 kind=bytes key=%q replay=%s\n%s", v.Key, path, v.Msg)
		}
	})
}
