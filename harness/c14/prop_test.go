// C14 — no character is cut in two by a part boundary.
package c14

import (
	"encoding/json"
	"fmt"
	"os"
	"testing"

	"pgregory.net/rapid"

	"verifharness/gen"
	"verifharness/splitk"
	"verifharness/vk"
)

var rec = vk.NewRecorder("C14")

func TestMain(m *testing.M) {
	vk.Disturb = gen.Disturb
	code := m.Run()
	rec.Flush("all")
	os.Exit(code)
}

var reg = vk.Registry{"split": func(raw json.RawMessage) *vk.Violation {
	var c splitk.Case
	_ = json.Unmarshal(raw, &c)
	return splitk.Boundaries(c, splitk.Run(c))
}, "batchsplit": func(raw json.RawMessage) *vk.Violation {
	var c splitk.Case
	_ = json.Unmarshal(raw, &c)
	return splitk.Boundaries(c, splitk.RunBatch(c))
}}

func init() { reg["sequence"] = vk.SequenceReplayer(reg) }

func TestReplay(t *testing.T) { vk.RunReplay(t, reg) }

func eval(t vk.TB, c splitk.Case, constructed bool) {
	r := splitk.Run(c)
	rec.Eval()
	a, _ := splitk.Analyse(c, r)
	if a != nil && !a.Single {
		rec.Class("multi_part:" + a.Kind.String())
		if splitk.StraddleForced(a) {
			rec.Class("boundary_had_to_move:" + a.Kind.String())
			if constructed {
				rec.NonTrivialConstructed(1)
			} else {
				rec.NonTrivial(c.Proto, c.Coding, c.Text)
			}
		}
	}
	rec.Sample(c.Proto, map[string]any{"proto": c.Proto, "coding": c.Coding, "note": c.Note, "text_bytes": len(c.Text) / 2, "parts": len(r.Parts)})
	first := true
	rec.ReportSeq(t, "split", c, func() *vk.Violation {
		if first {
			first = false
			return splitk.Boundaries(c, r)
		}
		return splitk.Boundaries(c, splitk.Run(c))
	})
	if c.TextString() != "" {
		rec.Eval()
		if v := splitk.Boundaries(c, splitk.RunBatch(c)); v != nil {
			v.Key = "batch:" + v.Key
			rec.Report(t, "batchsplit", v)
		}
	}
}

func TestGrid(t *testing.T) {
	rec.RunProbes(t, reg)
	rec.RunRegress(t, reg)
	env := rec.Env()
	for i, c := range splitk.GridCases() {
		if env.Mine(i) {
			eval(t, c, true)
		}
	}
	rec.Exhaustive("boundary grid: coding x multi-unit character x k=1..4 x every straddling offset x tail length")
}

func TestRandom(t *testing.T) {
	max := rec.Env().Pick(2000, 40000)
	rapid.Check(t, func(t *rapid.T) {
		c := splitk.DrawCase(t, max)
		eval(t, c, false)
	})
	_ = fmt.Sprint
}
