package ref

import "errors"

// GSM 7-bit default alphabet and extension table of 3GPP TS 23.038 §6.2.1 /
// §6.2.1.1, written by code point (an independent transcription, not derived
// from the library's tables).

const GSMEsc = 0x1B

// gsmDefault[septet] = code point (ESC has no character).
var gsmDefault = [128]rune{
	0x0040, 0x00A3, 0x0024, 0x00A5, 0x00E8, 0x00E9, 0x00F9, 0x00EC, 0x00F2, 0x00C7, 0x000A, 0x00D8, 0x00F8, 0x000D, 0x00C5, 0x00E5,
	0x0394, 0x005F, 0x03A6, 0x0393, 0x039B, 0x03A9, 0x03A0, 0x03A8, 0x03A3, 0x0398, 0x039E, -1, 0x00C6, 0x00E6, 0x00DF, 0x00C9,
	0x0020, 0x0021, 0x0022, 0x0023, 0x00A4, 0x0025, 0x0026, 0x0027, 0x0028, 0x0029, 0x002A, 0x002B, 0x002C, 0x002D, 0x002E, 0x002F,
	0x0030, 0x0031, 0x0032, 0x0033, 0x0034, 0x0035, 0x0036, 0x0037, 0x0038, 0x0039, 0x003A, 0x003B, 0x003C, 0x003D, 0x003E, 0x003F,
	0x00A1, 0x0041, 0x0042, 0x0043, 0x0044, 0x0045, 0x0046, 0x0047, 0x0048, 0x0049, 0x004A, 0x004B, 0x004C, 0x004D, 0x004E, 0x004F,
	0x0050, 0x0051, 0x0052, 0x0053, 0x0054, 0x0055, 0x0056, 0x0057, 0x0058, 0x0059, 0x005A, 0x00C4, 0x00D6, 0x00D1, 0x00DC, 0x00A7,
	0x00BF, 0x0061, 0x0062, 0x0063, 0x0064, 0x0065, 0x0066, 0x0067, 0x0068, 0x0069, 0x006A, 0x006B, 0x006C, 0x006D, 0x006E, 0x006F,
	0x0070, 0x0071, 0x0072, 0x0073, 0x0074, 0x0075, 0x0076, 0x0077, 0x0078, 0x0079, 0x007A, 0x00E4, 0x00F6, 0x00F1, 0x00FC, 0x00E0,
}

// gsmExt[code after ESC] = code point.
var gsmExt = map[byte]rune{
	0x0A: 0x000C, // form feed
	0x14: 0x005E, // ^
	0x28: 0x007B, // {
	0x29: 0x007D, // }
	0x2F: 0x005C, // backslash
	0x3C: 0x005B, // [
	0x3D: 0x007E, // ~
	0x3E: 0x005D, // ]
	0x40: 0x007C, // |
	0x65: 0x20AC, // euro sign
}

var gsmFwd, gsmFwdExt = func() (map[rune]byte, map[rune]byte) {
	a, b := map[rune]byte{}, map[rune]byte{}
	for i, r := range gsmDefault {
		if r >= 0 {
			a[r] = byte(i)
		}
	}
	for c, r := range gsmExt {
		b[r] = c
	}
	return a, b
}()

// GSMRune returns the septets of one character, or ok=false if the character
// is not in the alphabet.
func GSMRune(r rune) (septets []byte, ok bool) {
	if v, in := gsmFwd[r]; in {
		return []byte{v}, true
	}
	if v, in := gsmFwdExt[r]; in {
		return []byte{GSMEsc, v}, true
	}
	return nil, false
}

var ErrGSM = errors.New("not representable in the GSM 7-bit alphabet")

// GSMEncode maps a text to unpacked septets (one per octet).
func GSMEncode(s string) ([]byte, error) {
	var out []byte
	for _, r := range s {
		x, ok := GSMRune(r)
		if !ok {
			return nil, ErrGSM
		}
		out = append(out, x...)
	}
	return out, nil
}

// GSMDecode maps unpacked septets to text; any value >= 0x80, a dangling ESC
// or an ESC followed by a code outside the extension table is refused.
func GSMDecode(b []byte) (string, error) {
	var out []rune
	for i := 0; i < len(b); i++ {
		c := b[i]
		if c == GSMEsc {
			i++
			if i >= len(b) {
				return "", ErrGSM
			}
			r, ok := gsmExt[b[i]]
			if !ok {
				return "", ErrGSM
			}
			out = append(out, r)
			continue
		}
		if c >= 0x80 {
			return "", ErrGSM
		}
		out = append(out, gsmDefault[c])
	}
	return string(out), nil
}

// GSMPack: septet i occupies bits 7i..7i+6 of the little-endian bit stream;
// ceil(7n/8) octets; when n mod 8 == 7 the seven spare bits carry CR.
func GSMPack(septets []byte) []byte {
	n := len(septets)
	out := make([]byte, (7*n+7)/8)
	put := func(i int, v byte) {
		for j := 0; j < 7; j++ {
			if v>>uint(j)&1 == 1 {
				bit := 7*i + j
				out[bit/8] |= 1 << uint(bit%8)
			}
		}
	}
	for i, v := range septets {
		put(i, v&0x7f)
	}
	if n%8 == 7 {
		put(n, 0x0D)
	}
	return out
}

// GSMUnpack extracts n septets from a packed buffer (the receiver is told n,
// as a handset is by the TP-UDL field).
func GSMUnpack(b []byte, n int) []byte {
	out := make([]byte, n)
	for i := 0; i < n; i++ {
		var v byte
		for j := 0; j < 7; j++ {
			bit := 7*i + j
			if bit/8 < len(b) && b[bit/8]>>uint(bit%8)&1 == 1 {
				v |= 1 << uint(j)
			}
		}
		out[i] = v
	}
	return out
}

// GSMCharBoundaries returns, for an unpacked septet stream, the set of offsets
// at which a character starts (used to decide whether a cut splits an escape pair).
func GSMCharBoundaries(septets []byte) map[int]bool {
	m := map[int]bool{}
	for i := 0; i < len(septets); i++ {
		m[i] = true
		if septets[i] == GSMEsc {
			i++
		}
	}
	m[len(septets)] = true
	return m
}

// GSMRepertoireSize is the number of characters of the alphabet (127 + 10).
func GSMRepertoireSize() int { return len(gsmFwd) + len(gsmFwdExt) }
