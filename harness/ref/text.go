package ref

import (
	"errors"
	"unicode/utf16"
	"unicode/utf8"
)

// Reference transcoders for the text codings (independent of the library).
// ASCII, Windows-1252 ("Latin-1" as the code implements it) and UTF-16BE are
// written here; GB18030 content is decoded with golang.org/x/text (trusted
// base) and its unit structure (1/2/4 octets) is taken from the standard.

var ErrRepertoire = errors.New("outside the coding's repertoire")

// cp1252 special range 0x80..0x9F (WHATWG / Microsoft table; the five
// unassigned octets map to the C1 controls).
var cp1252Hi = [32]rune{
	0x20AC, 0x0081, 0x201A, 0x0192, 0x201E, 0x2026, 0x2020, 0x2021, 0x02C6, 0x2030, 0x0160, 0x2039, 0x0152, 0x008D, 0x017D, 0x008F,
	0x0090, 0x2018, 0x2019, 0x201C, 0x201D, 0x2022, 0x2013, 0x2014, 0x02DC, 0x2122, 0x0161, 0x203A, 0x0153, 0x009D, 0x017E, 0x0178,
}

func CP1252DecodeByte(b byte) rune {
	if b >= 0x80 && b <= 0x9F {
		return cp1252Hi[b-0x80]
	}
	return rune(b)
}

func CP1252Decode(b []byte) string {
	rs := make([]rune, len(b))
	for i, x := range b {
		rs[i] = CP1252DecodeByte(x)
	}
	return string(rs)
}

func CP1252Encode(s string) ([]byte, error) {
	var out []byte
	for _, r := range s {
		switch {
		case r < 0x80 || (r >= 0xA0 && r <= 0xFF):
			out = append(out, byte(r))
		default:
			found := false
			for i, x := range cp1252Hi {
				if x == r {
					out = append(out, byte(0x80+i))
					found = true
					break
				}
			}
			if !found {
				return nil, ErrRepertoire
			}
		}
	}
	return out, nil
}

// InLatin1Common: the part on which ISO-8859-1 and Windows-1252 agree.
func InLatin1Common(r rune) bool { return (r >= 0x20 && r <= 0x7E) || (r >= 0xA0 && r <= 0xFF) }

// Latin1Disputed: characters on which ISO-8859-1 and Windows-1252 disagree
// (U+0080..009F and the cp1252 extras).
func Latin1Disputed(r rune) bool {
	if r >= 0x80 && r <= 0x9F {
		return true
	}
	for _, x := range cp1252Hi {
		if x == r && r > 0xFF {
			return true
		}
	}
	return false
}

func IsASCII(s string) bool {
	for i := 0; i < len(s); i++ {
		if s[i] >= 0x80 {
			return false
		}
	}
	return true
}

// UTF16BE is the reference UCS-2/UTF-16 big-endian encoding (unicode/utf16).
func UTF16BE(s string) []byte {
	u := utf16.Encode([]rune(s))
	out := make([]byte, 2*len(u))
	for i, x := range u {
		out[2*i], out[2*i+1] = byte(x>>8), byte(x)
	}
	return out
}

// UTF16BEDecode refuses odd lengths and lone surrogates.
func UTF16BEDecode(b []byte) (string, error) {
	if len(b)%2 != 0 {
		return "", ErrRepertoire
	}
	u := make([]uint16, len(b)/2)
	for i := range u {
		u[i] = uint16(b[2*i])<<8 | uint16(b[2*i+1])
	}
	var rs []rune
	for i := 0; i < len(u); i++ {
		x := u[i]
		switch {
		case x >= 0xD800 && x <= 0xDBFF:
			if i+1 >= len(u) || u[i+1] < 0xDC00 || u[i+1] > 0xDFFF {
				return "", ErrRepertoire
			}
			rs = append(rs, utf16.DecodeRune(rune(x), rune(u[i+1])))
			i++
		case x >= 0xDC00 && x <= 0xDFFF:
			return "", ErrRepertoire
		default:
			rs = append(rs, rune(x))
		}
	}
	return string(rs), nil
}

// UCS2CharBoundaries: offsets (in octets) at which a character starts.
func UCS2CharBoundaries(b []byte) map[int]bool {
	m := map[int]bool{}
	for i := 0; i+1 < len(b); i += 2 {
		m[i] = true
		if x := uint16(b[i])<<8 | uint16(b[i+1]); x >= 0xD800 && x <= 0xDBFF {
			i += 2
		}
	}
	m[len(b)] = true
	return m
}

// GB18030CharBoundaries walks the 1/2/4-octet structure of GB 18030-2005:
// 00-7F single; lead 81-FE followed by 30-39 starts a four-octet character,
// followed by 40-FE (not 7F) a two-octet character.
func GB18030CharBoundaries(b []byte) (m map[int]bool, wellFormed bool) {
	m = map[int]bool{}
	i := 0
	for i < len(b) {
		m[i] = true
		switch {
		case b[i] < 0x80:
			i++
		case i+1 < len(b) && b[i+1] >= 0x30 && b[i+1] <= 0x39:
			if i+3 >= len(b) {
				return m, false
			}
			i += 4
		case i+1 < len(b):
			i += 2
		default:
			return m, false
		}
	}
	m[len(b)] = true
	return m, true
}

func ValidUTF8(s string) bool { return utf8.ValidString(s) }
