package ref

import (
	"fmt"

	"golang.org/x/text/encoding/simplifiedchinese"
)

// Reference model of long-message splitting: unit streams per coding,
// capacities, the greedy whole-character part count, header builder/parser.

type TextKind int

const (
	KASCII TextKind = iota
	KLatin1
	KUCS2
	KGB18030
	KGSMUnpacked
	KGSMPacked
)

func (k TextKind) String() string {
	return [...]string{"ASCII", "Latin1(cp1252)", "UCS2", "GB18030", "GSM7-unpacked", "GSM7-packed"}[k]
}

func (k TextKind) IsGSM() bool { return k == KGSMUnpacked || k == KGSMPacked }

// Limits returns (single-message limit, per-part payload capacity) in units:
// octets (140 / 134), or septets for GSM 7-bit (160 / 153).
func (k TextKind) Limits() (single, per int) {
	if k.IsGSM() {
		return 160, 153
	}
	return 140, 134
}

// Units encodes a text under a coding by reference means and returns the unit
// stream (octets; septets one per octet for both GSM forms) together with the
// offsets at which characters start (plus the end offset).
func Units(k TextKind, text string) (units []byte, starts []int, err error) {
	for _, r := range text {
		starts = append(starts, len(units))
		switch k {
		case KASCII:
			if r > 0x7F {
				return nil, nil, ErrRepertoire
			}
			units = append(units, byte(r))
		case KLatin1:
			b, e := CP1252Encode(string(r))
			if e != nil {
				return nil, nil, e
			}
			units = append(units, b...)
		case KUCS2:
			units = append(units, UTF16BE(string(r))...)
		case KGB18030:
			b, e := simplifiedchinese.GB18030.NewEncoder().Bytes([]byte(string(r)))
			if e != nil {
				return nil, nil, e
			}
			units = append(units, b...)
		case KGSMUnpacked, KGSMPacked:
			b, ok := GSMRune(r)
			if !ok {
				return nil, nil, ErrGSM
			}
			units = append(units, b...)
		}
	}
	starts = append(starts, len(units))
	return units, starts, nil
}

// DecodeUnits decodes a unit stream (or a piece of one) on its own.
func DecodeUnits(k TextKind, units []byte) (string, error) {
	switch k {
	case KASCII:
		for _, b := range units {
			if b > 0x7F {
				return "", ErrRepertoire
			}
		}
		return string(units), nil
	case KLatin1:
		return CP1252Decode(units), nil
	case KUCS2:
		return UTF16BEDecode(units)
	case KGB18030:
		if _, ok := GB18030CharBoundaries(units); !ok {
			return "", fmt.Errorf("truncated GB18030 sequence")
		}
		b, err := simplifiedchinese.GB18030.NewDecoder().Bytes(units)
		if err != nil {
			return "", err
		}
		for _, r := range string(b) {
			if r == 0xFFFD {
				return "", fmt.Errorf("malformed GB18030 sequence")
			}
		}
		return string(b), nil
	default:
		return GSMDecode(units)
	}
}

// GreedyCount: number of parts when every part is filled as far as whole
// characters allow (per units of payload per part).
func GreedyCount(starts []int, per int) int {
	total := starts[len(starts)-1]
	if total == 0 {
		return 0
	}
	parts, begin := 0, 0
	for begin < total {
		// the furthest character boundary not beyond begin+per
		end := begin
		for _, s := range starts {
			if s > begin && s <= begin+per && s > end {
				end = s
			}
		}
		if end == begin {
			return -1 // a single character wider than a part (cannot happen for these codings)
		}
		parts++
		begin = end
	}
	return parts
}

// Header6 is the 8-bit-reference concatenation header.
func Header6(refByte, total, seq byte) []byte { return []byte{0x05, 0x00, 0x03, refByte, total, seq} }

// Header7 is the 16-bit-reference form.
func Header7(ref16 uint16, total, seq byte) []byte {
	return []byte{0x06, 0x08, 0x04, byte(ref16 >> 8), byte(ref16), total, seq}
}

// PackedPayloadSeptetCounts returns the septet counts n that are consistent
// with a packed payload of L octets: floor(8L/7), or one less when 7 | L (the
// spare septet may be fill).
func PackedPayloadSeptetCounts(L int) []int {
	n := 8 * L / 7
	if L > 0 && L%7 == 0 {
		return []int{n, n - 1}
	}
	return []int{n}
}

// GB18030Rune: the single character the octets encode, provided x/text maps it both ways (the BMP
// private-use carve-out U+E000..U+E864 and unassigned positions are skipped).
func GB18030Rune(b []byte) (rune, bool) {
	d, err := simplifiedchinese.GB18030.NewDecoder().Bytes(b)
	if err != nil {
		return 0, false
	}
	rs := []rune(string(d))
	if len(rs) != 1 || rs[0] == 0xFFFD || (rs[0] >= 0xE000 && rs[0] <= 0xF8FF) {
		return 0, false
	}
	e, err := simplifiedchinese.GB18030.NewEncoder().Bytes([]byte(string(rs[0])))
	if err != nil || string(e) != string(b) {
		return 0, false
	}
	return rs[0], true
}
