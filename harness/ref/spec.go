// Package ref holds the independent oracles. Nothing in this package imports
// the library under test.
//
// spec.go: table-driven wire layouts of all 57 PDU types (+ the CMPP status
// report body), transcribed from the protocol documents in /repo/doc (text
// extracts in /verif/spec_extract). Each table cites the section it was taken
// from.
package ref

// Kind of a field on the wire.
type Kind int

const (
	U8 Kind = iota
	U16
	U32
	U64
	FixStr  // fixed width W, text, NUL padded on the right ("Octet String")
	CStr    // NUL terminated, at most W octets including the NUL ("C-Octet String")
	Bin     // fixed width W, binary: all byte values, exactly W octets (authenticators)
	HexID   // fixed width W binary on the wire; the Go side holds 2W lower-case hex digits (SMGP MsgID)
	Count8  // one octet: number of entries of the List field named Ref
	List    // Ref-counted repetition of FixStr(W)
	Len8    // one octet: length of the Body field named Ref
	Len32   // four octets: length of the Body field named Ref
	Body    // variable length binary body (all byte values)
	Seq3    // three 32-bit words (SGIP sequence numbers inside a body)
	TLVTail // SMPP optional parameters: (tag16, len16, value)*
	OptTail // SMGP optional parameters: (tag16, len16, value)*
)

type Field struct {
	Name string // Go field name in the library's struct (used only by the binding layer)
	Kind Kind
	W    int    // width / maximum
	Ref  string // for Count8/Len8/Len32: the counted field
	// LibExt marks a member that the library's struct and image carry although the
	// specification defines no such field. Reference images never contain it.
	LibExt bool
}

// Header kinds.
const (
	HdrCMPP = "cmpp" // len32 cmd32 seq32
	HdrSMGP = "smgp" // len32 cmd32 seq32
	HdrSMPP = "smpp" // len32 cmd32 status32 seq32
	HdrSGIP = "sgip" // len32 cmd32 seq32 x3
	HdrNone = "none" // bare body (CMPP status report)
)

type PDUSpec struct {
	Proto  string // "smpp34" "cmpp20" "cmpp30" "sgip12" "smgp30" "cmpp"
	Name   string // Go type name in that package
	Hdr    string
	Cmd    uint32   // command id the specification assigns
	AltCmd []uint32 // further ids that share this layout (SMPP bind flavours)
	Resp   string   // name of the response type ("" for responses)
	Fields []Field
	Cite   string
}

func (p *PDUSpec) ID() string { return p.Proto + "." + p.Name }

func (p *PDUSpec) HeaderLen() int {
	switch p.Hdr {
	case HdrCMPP, HdrSMGP:
		return 12
	case HdrSMPP:
		return 16
	case HdrSGIP:
		return 20
	}
	return 0
}

// SeqOffset is the offset of the (last) sequence word in the header.
func (p *PDUSpec) SeqOffset() int {
	switch p.Hdr {
	case HdrCMPP, HdrSMGP:
		return 8
	case HdrSMPP:
		return 12
	case HdrSGIP:
		return 16
	}
	return -1
}

func (p *PDUSpec) IsResponse() bool { return p.Cmd&0x80000000 != 0 }

func (p *PDUSpec) HasTail() bool {
	for _, f := range p.Fields {
		if f.Kind == TLVTail || f.Kind == OptTail {
			return true
		}
	}
	return false
}

func f(name string, k Kind, w int) Field       { return Field{Name: name, Kind: k, W: w} }
func fr(name string, k Kind, ref string) Field { return Field{Name: name, Kind: k, Ref: ref} }

var cmppQueryResp = []Field{
	f("Time", FixStr, 8), f("QueryType", U8, 0), f("QueryCode", FixStr, 10),
	f("MtTLMsg", U32, 0), f("MtTlUsr", U32, 0), f("MtScs", U32, 0), f("MtWT", U32, 0), f("MtFL", U32, 0),
	f("MoScs", U32, 0), f("MoWT", U32, 0), f("MoFL", U32, 0),
}
var cmppQuery = []Field{f("Time", FixStr, 8), f("QueryType", U8, 0), f("QueryCode", FixStr, 10), f("Reserve", FixStr, 8)}
var cmppConnect = []Field{f("SourceAddr", FixStr, 6), f("AuthenticatorSource", Bin, 16), f("Version", U8, 0), f("Timestamp", U32, 0)}

var smppSubmitLike = func(defaultMsgID string) []Field {
	return []Field{
		f("ServiceType", CStr, 6), f("SourceAddrTon", U8, 0), f("SourceAddrNpi", U8, 0), f("SourceAddr", CStr, 21),
		f("DestAddrTon", U8, 0), f("DestAddrNpi", U8, 0), f("DestinationAddr", CStr, 21),
		f("ESMClass", U8, 0), f("ProtocolID", U8, 0), f("PriorityFlag", U8, 0),
		f("ScheduleDeliveryTime", CStr, 17), f("ValidityPeriod", CStr, 17),
		f("RegisteredDelivery", U8, 0), f("ReplaceIfPresentFlag", U8, 0), f("DataCoding", U8, 0), f(defaultMsgID, U8, 0),
		fr("SmLength", Len8, "ShortMessage"), f("ShortMessage", Body, 0), f("TLVs", TLVTail, 0),
	}
}

var sgipResp = []Field{f("Result", U8, 0), f("Reserved", FixStr, 8)}

// Specs lists every PDU type. Order is stable (used as the type index by generators).
var Specs = []*PDUSpec{
	// ---------------------------------------------------------------- SMPP 3.4 (SMPP_v3_4 Issue 1.2)
	{Proto: "smpp34", Name: "Bind", Hdr: HdrSMPP, Cmd: 0x00000009, AltCmd: []uint32{0x00000001, 0x00000002}, Resp: "BindResp",
		Cite: "SMPP 3.4 §4.1.1 bind_transmitter / §4.1.3 bind_receiver / §4.1.5 bind_transceiver; ids §5.1.2.1",
		Fields: []Field{f("SystemID", CStr, 16), f("Password", CStr, 9), f("SystemType", CStr, 13), f("InterfaceVersion", U8, 0),
			f("AddrTon", U8, 0), f("AddrNpi", U8, 0), f("AddressRange", CStr, 41)}},
	{Proto: "smpp34", Name: "BindResp", Hdr: HdrSMPP, Cmd: 0x80000009, AltCmd: []uint32{0x80000001, 0x80000002},
		Cite:   "SMPP 3.4 §4.1.2/4.1.4/4.1.6 bind_*_resp",
		Fields: []Field{f("SystemID", CStr, 16), f("TLVs", TLVTail, 0)}},
	{Proto: "smpp34", Name: "SubmitSm", Hdr: HdrSMPP, Cmd: 0x00000004, Resp: "SubmitSmResp",
		Cite: "SMPP 3.4 §4.4.1 submit_sm", Fields: smppSubmitLike("SmDefaultMsgID")},
	{Proto: "smpp34", Name: "SubmitSmResp", Hdr: HdrSMPP, Cmd: 0x80000004,
		Cite: "SMPP 3.4 §4.4.2 submit_sm_resp", Fields: []Field{f("MessageID", CStr, 65)}},
	{Proto: "smpp34", Name: "DeliverSm", Hdr: HdrSMPP, Cmd: 0x00000005, Resp: "DeliverSmResp",
		Cite: "SMPP 3.4 §4.6.1 deliver_sm", Fields: smppSubmitLike("SmDefaultMsgId")},
	{Proto: "smpp34", Name: "DeliverSmResp", Hdr: HdrSMPP, Cmd: 0x80000005,
		Cite: "SMPP 3.4 §4.6.2 deliver_sm_resp", Fields: []Field{f("MessageID", CStr, 65)}},
	{Proto: "smpp34", Name: "EnquireLink", Hdr: HdrSMPP, Cmd: 0x00000015, Resp: "EnquireLinkResp", Cite: "SMPP 3.4 §4.11.1"},
	{Proto: "smpp34", Name: "EnquireLinkResp", Hdr: HdrSMPP, Cmd: 0x80000015, Cite: "SMPP 3.4 §4.11.2"},
	{Proto: "smpp34", Name: "Unbind", Hdr: HdrSMPP, Cmd: 0x00000006, Resp: "UnBindResp", Cite: "SMPP 3.4 §4.2.1"},
	{Proto: "smpp34", Name: "UnBindResp", Hdr: HdrSMPP, Cmd: 0x80000006, Cite: "SMPP 3.4 §4.2.2"},
	{Proto: "smpp34", Name: "GenericNack", Hdr: HdrSMPP, Cmd: 0x80000000, Cite: "SMPP 3.4 §4.3.1"},

	// ---------------------------------------------------------------- CMPP 2.0
	{Proto: "cmpp20", Name: "PduConnect", Hdr: HdrCMPP, Cmd: 0x00000001, Resp: "PduConnectResp",
		Cite: "CMPP 2.0 §7.4.1.1 CMPP_CONNECT", Fields: cmppConnect},
	{Proto: "cmpp20", Name: "PduConnectResp", Hdr: HdrCMPP, Cmd: 0x80000001,
		Cite:   "CMPP 2.0 §7.4.1.2 CMPP_CONNECT_RESP (Status 1)",
		Fields: []Field{f("Status", U8, 0), f("AuthenticatorISMG", Bin, 16), f("Version", U8, 0)}},
	{Proto: "cmpp20", Name: "PduSubmit", Hdr: HdrCMPP, Cmd: 0x00000004, Resp: "PduSubmitResp",
		Cite: "CMPP 2.0 §7.4.3.1 CMPP_SUBMIT",
		Fields: []Field{f("MsgID", U64, 0), f("PkTotal", U8, 0), f("PkNumber", U8, 0), f("RegisteredDelivery", U8, 0), f("MsgLevel", U8, 0),
			f("ServiceID", FixStr, 10), f("FeeUserType", U8, 0), f("FeeTerminalID", FixStr, 21), f("TpPID", U8, 0), f("TpUDHI", U8, 0),
			f("MsgFmt", U8, 0), f("MsgSrc", FixStr, 6), f("FeeType", FixStr, 2), f("FeeCode", FixStr, 6), f("ValIDTime", FixStr, 17),
			f("AtTime", FixStr, 17), f("SrcID", FixStr, 21), fr("DestUsrTL", Count8, "DestTerminalID"), f("DestTerminalID", List, 21),
			fr("MsgLength", Len8, "MsgContent"), f("MsgContent", Body, 0), f("Reserve", FixStr, 8)}},
	{Proto: "cmpp20", Name: "PduSubmitResp", Hdr: HdrCMPP, Cmd: 0x80000004,
		Cite: "CMPP 2.0 §7.4.3.2 (Result 1)", Fields: []Field{f("MsgID", U64, 0), f("Result", U8, 0)}},
	{Proto: "cmpp20", Name: "PduDeliver", Hdr: HdrCMPP, Cmd: 0x00000005, Resp: "PduDeliverResp",
		Cite: "CMPP 2.0 §7.4.5.1 CMPP_DELIVER",
		Fields: []Field{f("MsgID", U64, 0), f("DestID", FixStr, 21), f("ServiceID", FixStr, 10), f("TpPID", U8, 0), f("TpUDHI", U8, 0),
			f("MsgFmt", U8, 0), f("SrcTerminalID", FixStr, 21), f("RegisteredDeliver", U8, 0),
			fr("MsgLength", Len8, "MsgContent"), f("MsgContent", Body, 0), f("Reserved", FixStr, 8)}},
	{Proto: "cmpp20", Name: "PduDeliverResp", Hdr: HdrCMPP, Cmd: 0x80000005,
		Cite: "CMPP 2.0 §7.4.5.2 (Result 1)", Fields: []Field{f("MsgID", U64, 0), f("Result", U8, 0)}},
	{Proto: "cmpp20", Name: "PduQuery", Hdr: HdrCMPP, Cmd: 0x00000006, Resp: "PduQueryResp",
		Cite: "CMPP 2.0 §7.4.4.1 CMPP_QUERY", Fields: cmppQuery},
	{Proto: "cmpp20", Name: "PduQueryResp", Hdr: HdrCMPP, Cmd: 0x80000006,
		Cite: "CMPP 2.0 §7.4.4.2 CMPP_QUERY_RESP (five MT and three MO counters)", Fields: cmppQueryResp},
	{Proto: "cmpp20", Name: "PduActiveTest", Hdr: HdrCMPP, Cmd: 0x00000008, Resp: "PduActiveTestResp", Cite: "CMPP 2.0 §7.4.7.1"},
	{Proto: "cmpp20", Name: "PduActiveTestResp", Hdr: HdrCMPP, Cmd: 0x80000008,
		Cite: "CMPP 2.0 §7.4.7.2 (Reserved 1)", Fields: []Field{f("Reserved", U8, 0)}},
	{Proto: "cmpp20", Name: "PduTerminate", Hdr: HdrCMPP, Cmd: 0x00000002, Resp: "PduTerminateResp", Cite: "CMPP 2.0 §7.4.2.1"},
	{Proto: "cmpp20", Name: "PduTerminateResp", Hdr: HdrCMPP, Cmd: 0x80000002, Cite: "CMPP 2.0 §7.4.2.2"},

	// ---------------------------------------------------------------- CMPP 3.0
	{Proto: "cmpp30", Name: "Connect", Hdr: HdrCMPP, Cmd: 0x00000001, Resp: "ConnectResp",
		Cite: "CMPP 3.0 §7.4.1.1", Fields: cmppConnect},
	{Proto: "cmpp30", Name: "ConnectResp", Hdr: HdrCMPP, Cmd: 0x80000001,
		Cite:   "CMPP 3.0 §7.4.1.2 (Status 4)",
		Fields: []Field{f("Status", U32, 0), f("AuthenticatorISMG", Bin, 16), f("Version", U8, 0)}},
	{Proto: "cmpp30", Name: "Submit", Hdr: HdrCMPP, Cmd: 0x00000004, Resp: "SubmitResp",
		Cite: "CMPP 3.0 §7.4.3.1 (Fee_terminal_Id 32, Fee_terminal_type, Dest_terminal_Id 32, Dest_terminal_type, LinkID 20)",
		Fields: []Field{f("MsgID", U64, 0), f("PkTotal", U8, 0), f("PkNumber", U8, 0), f("RegisteredDelivery", U8, 0), f("MsgLevel", U8, 0),
			f("ServiceID", FixStr, 10), f("FeeUserType", U8, 0), f("FeeTerminalID", FixStr, 32), f("FeeTerminalType", U8, 0),
			f("TpPID", U8, 0), f("TpUDHI", U8, 0), f("MsgFmt", U8, 0), f("MsgSrc", FixStr, 6), f("FeeType", FixStr, 2),
			f("FeeCode", FixStr, 6), f("ValiDTime", FixStr, 17), f("AtTime", FixStr, 17), f("SrcID", FixStr, 21),
			fr("DestUsrTL", Count8, "DestTerminalID"), f("DestTerminalID", List, 32), f("DestTerminalType", U8, 0),
			fr("MsgLength", Len8, "MsgContent"), f("MsgContent", Body, 0), f("LinkID", FixStr, 20)}},
	{Proto: "cmpp30", Name: "SubmitResp", Hdr: HdrCMPP, Cmd: 0x80000004,
		Cite: "CMPP 3.0 §7.4.3.2 (Result 4)", Fields: []Field{f("MsgID", U64, 0), f("Result", U32, 0)}},
	{Proto: "cmpp30", Name: "Deliver", Hdr: HdrCMPP, Cmd: 0x00000005, Resp: "DeliverResp",
		Cite: "CMPP 3.0 §7.4.5.1 (Src_terminal_Id 32, Src_terminal_type, LinkID 20)",
		Fields: []Field{f("MsgID", U64, 0), f("DestID", FixStr, 21), f("ServiceID", FixStr, 10), f("TpPID", U8, 0), f("TpUDHI", U8, 0),
			f("MsgFmt", U8, 0), f("SrcTerminalID", FixStr, 32), f("SrcTerminalType", U8, 0), f("RegisteredDeliver", U8, 0),
			fr("MsgLength", Len8, "MsgContent"), f("MsgContent", Body, 0), f("LinkID", FixStr, 20)}},
	{Proto: "cmpp30", Name: "DeliverResp", Hdr: HdrCMPP, Cmd: 0x80000005,
		Cite: "CMPP 3.0 §7.4.5.2 (Result 4)", Fields: []Field{f("MsgID", U64, 0), f("Result", U32, 0)}},
	{Proto: "cmpp30", Name: "Query", Hdr: HdrCMPP, Cmd: 0x00000006, Resp: "QueryResp", Cite: "CMPP 3.0 §7.4.4.1", Fields: cmppQuery},
	{Proto: "cmpp30", Name: "QueryResp", Hdr: HdrCMPP, Cmd: 0x80000006, Cite: "CMPP 3.0 §7.4.4.2", Fields: cmppQueryResp},
	{Proto: "cmpp30", Name: "Cancel", Hdr: HdrCMPP, Cmd: 0x00000007, Resp: "CancelResp",
		Cite: "CMPP 3.0 §7.4.6.1", Fields: []Field{f("MsgID", U64, 0)}},
	{Proto: "cmpp30", Name: "CancelResp", Hdr: HdrCMPP, Cmd: 0x80000007,
		Cite: "CMPP 3.0 §7.4.6.2 (Success_Id 4)", Fields: []Field{f("SuccessID", U32, 0)}},
	{Proto: "cmpp30", Name: "ActiveTest", Hdr: HdrCMPP, Cmd: 0x00000008, Resp: "ActiveTestResp", Cite: "CMPP 3.0 §7.4.7.1"},
	{Proto: "cmpp30", Name: "ActiveTestResp", Hdr: HdrCMPP, Cmd: 0x80000008,
		Cite: "CMPP 3.0 §7.4.7.2 (Reserved 1)", Fields: []Field{f("Reserved", U8, 0)}},
	{Proto: "cmpp30", Name: "Terminate", Hdr: HdrCMPP, Cmd: 0x00000002, Resp: "TerminateResp", Cite: "CMPP 3.0 §7.4.2.1"},
	{Proto: "cmpp30", Name: "TerminateResp", Hdr: HdrCMPP, Cmd: 0x80000002, Cite: "CMPP 3.0 §7.4.2.2"},

	// ---------------------------------------------------------------- SGIP 1.2
	{Proto: "sgip12", Name: "Bind", Hdr: HdrSGIP, Cmd: 0x00000001, Resp: "BindResp",
		Cite:   "SGIP 1.2 §4.2.1 Bind (Login Type 1, Login Name 16, Login Password 16, Reserve 8)",
		Fields: []Field{f("Type", U8, 0), f("Name", FixStr, 16), f("Password", FixStr, 16), f("Reserved", FixStr, 8)}},
	{Proto: "sgip12", Name: "BindResp", Hdr: HdrSGIP, Cmd: 0x80000001, Cite: "SGIP 1.2 §4.2.2 Bind_Resp (Result 1, Reserve 8)", Fields: sgipResp},
	{Proto: "sgip12", Name: "Unbind", Hdr: HdrSGIP, Cmd: 0x00000002, Resp: "UnbindResp", Cite: "SGIP 1.2 §4.2.3"},
	{Proto: "sgip12", Name: "UnbindResp", Hdr: HdrSGIP, Cmd: 0x80000002, Cite: "SGIP 1.2 §4.2.4"},
	{Proto: "sgip12", Name: "Submit", Hdr: HdrSGIP, Cmd: 0x00000003, Resp: "SubmitResp",
		Cite: "SGIP 1.2 §4.2.5 Submit",
		Fields: []Field{f("SpNumber", FixStr, 21), f("ChargeNumber", FixStr, 21), fr("UserCount", Count8, "UserNumber"), f("UserNumber", List, 21),
			f("CorpID", FixStr, 5), f("ServiceType", FixStr, 10), f("FeeType", U8, 0), f("FeeValue", FixStr, 6), f("GivenValue", FixStr, 6),
			f("AgentFlag", U8, 0), f("MorelatetoMTFlag", U8, 0), f("Priority", U8, 0), f("ExpireTime", FixStr, 16), f("ScheduleTime", FixStr, 16),
			f("ReportFlag", U8, 0), f("TpPid", U8, 0), f("TpUdhi", U8, 0), f("MessageCoding", U8, 0), f("MessageType", U8, 0),
			fr("MessageLength", Len32, "MessageContent"), f("MessageContent", Body, 0), f("Reserved", FixStr, 8)}},
	{Proto: "sgip12", Name: "SubmitResp", Hdr: HdrSGIP, Cmd: 0x80000003, Cite: "SGIP 1.2 §4.2.6", Fields: sgipResp},
	{Proto: "sgip12", Name: "Deliver", Hdr: HdrSGIP, Cmd: 0x00000004, Resp: "DeliverResp",
		Cite: "SGIP 1.2 §4.2.7 Deliver",
		Fields: []Field{f("UserNumber", FixStr, 21), f("SPNumber", FixStr, 21), f("TpPid", U8, 0), f("TpUdhi", U8, 0), f("MessageCoding", U8, 0),
			fr("MessageLength", Len32, "MessageContent"), f("MessageContent", Body, 0), f("Reserved", FixStr, 8)}},
	{Proto: "sgip12", Name: "DeliverResp", Hdr: HdrSGIP, Cmd: 0x80000004, Cite: "SGIP 1.2 §4.2.8", Fields: sgipResp},
	{Proto: "sgip12", Name: "Report", Hdr: HdrSGIP, Cmd: 0x00000005, Resp: "ReportResp",
		Cite: "SGIP 1.2 §4.2.9 Report (SubmitSequenceNumber 12, ReportType 1, UserNumber 21, State 1, ErrorCode 1, Reserve 8)",
		Fields: []Field{f("SubmitSequence", Seq3, 0), f("ReportType", U8, 0), f("UserNumber", FixStr, 21), f("State", U8, 0),
			f("ErrorCode", U8, 0), f("Reserved", FixStr, 8)}},
	{Proto: "sgip12", Name: "ReportResp", Hdr: HdrSGIP, Cmd: 0x80000005, Cite: "SGIP 1.2 §4.2.10", Fields: sgipResp},

	// ---------------------------------------------------------------- SMGP 3.0.3
	{Proto: "smgp30", Name: "Login", Hdr: HdrSMGP, Cmd: 0x00000001, Resp: "LoginResp",
		Cite: "SMGP 3.0.3 §5.2.2.1.1 Login (ClientID 8, AuthenticatorClient 16, LoginMode 1, TimeStamp 4, ClientVersion 1)",
		Fields: []Field{f("ClientID", FixStr, 8), f("AuthenticatorClient", Bin, 16), f("LoginMode", U8, 0), f("Timestamp", U32, 0),
			f("Version", U8, 0)}},
	{Proto: "smgp30", Name: "LoginResp", Hdr: HdrSMGP, Cmd: 0x80000001,
		Cite:   "SMGP 3.0.3 §5.2.2.1.2 Login_Resp (Status 4, AuthenticatorServer 16, ServerVersion 1)",
		Fields: []Field{f("Status", U32, 0), f("AuthenticatorServer", Bin, 16), f("ServerVersion", U8, 0)}},
	{Proto: "smgp30", Name: "Submit", Hdr: HdrSMGP, Cmd: 0x00000002, Resp: "SubmitResp",
		Cite: "SMGP 3.0.3 §5.2.2.2.1 Submit",
		Fields: []Field{f("MsgType", U8, 0), f("NeedReport", U8, 0), f("Priority", U8, 0), f("ServiceID", FixStr, 10), f("FeeType", FixStr, 2),
			f("FeeCode", FixStr, 6), f("FixedFee", FixStr, 6), f("MsgFormat", U8, 0), f("ValidTime", FixStr, 17), f("AtTime", FixStr, 17),
			f("SrcTermID", FixStr, 21), f("ChargeTermID", FixStr, 21), fr("DestTermIDCount", Count8, "DestTermID"), f("DestTermID", List, 21),
			fr("MsgLength", Len8, "MsgContent"), f("MsgContent", Body, 0), f("Reserve", FixStr, 8), f("Options", OptTail, 0)}},
	{Proto: "smgp30", Name: "SubmitResp", Hdr: HdrSMGP, Cmd: 0x80000002,
		Cite: "SMGP 3.0.3 §5.2.2.2.2 Submit_Resp (MsgID 10, Status 4)", Fields: []Field{f("MsgID", HexID, 10), f("Status", U32, 0)}},
	{Proto: "smgp30", Name: "Deliver", Hdr: HdrSMGP, Cmd: 0x00000003, Resp: "DeliverResp",
		Cite: "SMGP 3.0.3 §5.2.2.3.1 Deliver (MsgID 10, IsReport 1, MsgFormat 1, RecvTime 14, SrcTermID 21, DestTermID 21, MsgLength 1, MsgContent, Reserve 8, TLV)",
		Fields: []Field{f("MsgID", HexID, 10), f("IsReport", U8, 0), f("MsgFormat", U8, 0), f("RecvTime", FixStr, 14), f("SrcTermID", FixStr, 21),
			f("DestTermID", FixStr, 21), fr("MsgLength", Len8, "MsgContent"), f("MsgContent", Body, 0), f("Reserve", FixStr, 8),
			f("Options", OptTail, 0)}},
	{Proto: "smgp30", Name: "DeliverResp", Hdr: HdrSMGP, Cmd: 0x80000003,
		Cite: "SMGP 3.0.3 §5.2.2.3.2 Deliver_Resp (MsgID 10, Status 4)", Fields: []Field{f("MsgID", HexID, 10), f("Result", U32, 0)}},
	{Proto: "smgp30", Name: "ActiveTest", Hdr: HdrSMGP, Cmd: 0x00000004, Resp: "ActiveTestResp", Cite: "SMGP 3.0.3 §5.2.2.5.1 (no body)"},
	{Proto: "smgp30", Name: "ActiveTestResp", Hdr: HdrSMGP, Cmd: 0x80000004, Cite: "SMGP 3.0.3 §5.2.2.5.2 (no body; the library adds a Reserved octet)",
		Fields: []Field{{Name: "Reserved", Kind: U8, LibExt: true}}},
	{Proto: "smgp30", Name: "Exit", Hdr: HdrSMGP, Cmd: 0x00000006, Resp: "ExitResp", Cite: "SMGP 3.0.3 §5.2.2.6.1 (no body)"},
	{Proto: "smgp30", Name: "ExitResp", Hdr: HdrSMGP, Cmd: 0x80000006, Cite: "SMGP 3.0.3 §5.2.2.6.2 (no body)"},

	// ---------------------------------------------------------------- CMPP status report body (inside Msg_Content of a deliver)
	{Proto: "cmpp", Name: "SubPduDeliveryContent", Hdr: HdrNone,
		Cite: "CMPP 2.0 §7.4.5.1 / 3.0 §7.4.5.1 status report: Msg_Id 8, Stat 7, Submit_time 10, Done_time 10, Dest_terminal_Id 21 (3.0: 32; the library implements the 2.0 width), SMSC_sequence 4",
		Fields: []Field{f("MsgID", U64, 0), f("Stat", FixStr, 7), f("SubmitTime", FixStr, 10), f("DoneTime", FixStr, 10),
			f("DestTerminalID", FixStr, 21), f("SMSCSequence", U32, 0)}},
}

// NumPDUTypes is the number of real PDU types (the status-report body is extra).
const NumPDUTypes = 57

func Find(proto, name string) *PDUSpec {
	for _, s := range Specs {
		if s.Proto == proto && s.Name == name {
			return s
		}
	}
	return nil
}
