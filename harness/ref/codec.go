package ref

import (
	"bytes"
	"encoding/binary"
	"encoding/hex"
	"fmt"
	"sort"
)

// Triplet is one optional parameter (SMPP TLV / SMGP option).
type Triplet struct {
	Tag uint16
	Val []byte
}

// Vals is a PDU value in reference terms: header members plus one value per
// table field. Field values: uint64 (U8..U64, Count8, Len8, Len32), []byte
// (FixStr, CStr, Bin, HexID raw octets, Body), [][]byte (List), [3]uint32
// (Seq3), []Triplet (TLVTail, OptTail).
type Vals struct {
	Cmd    uint32
	Status uint32    // SMPP only
	Seq    [3]uint32 // SGIP: all three words; others: Seq[0]
	F      map[string]any
}

func NewVals() *Vals { return &Vals{F: map[string]any{}} }

func (v *Vals) U(name string) uint64     { x, _ := v.F[name].(uint64); return x }
func (v *Vals) B(name string) []byte     { x, _ := v.F[name].([]byte); return x }
func (v *Vals) L(name string) [][]byte   { x, _ := v.F[name].([][]byte); return x }
func (v *Vals) T(name string) []Triplet  { x, _ := v.F[name].([]Triplet); return x }
func (v *Vals) S3(name string) [3]uint32 { x, _ := v.F[name].([3]uint32); return x }

func be32(b *bytes.Buffer, x uint32) {
	var t [4]byte
	binary.BigEndian.PutUint32(t[:], x)
	b.Write(t[:])
}

// Encode assembles the image from the table alone: big-endian integers,
// NUL-padded fixed fields, NUL-terminated C-strings, header = total length,
// command id, (status,) sequence word(s). Declared counts/lengths are written
// as stored in v (so inconsistent images can be built deliberately).
func Encode(s *PDUSpec, v *Vals) []byte { return EncodeOpt(s, v, false) }

// EncodeOpt: withLibExt also emits the members the library adds beyond the
// specification (used only to recognise that exact deviation).
func EncodeOpt(s *PDUSpec, v *Vals, withLibExt bool) []byte {
	var b bytes.Buffer
	switch s.Hdr {
	case HdrCMPP, HdrSMGP:
		be32(&b, 0)
		be32(&b, v.Cmd)
		be32(&b, v.Seq[0])
	case HdrSMPP:
		be32(&b, 0)
		be32(&b, v.Cmd)
		be32(&b, v.Status)
		be32(&b, v.Seq[0])
	case HdrSGIP:
		be32(&b, 0)
		be32(&b, v.Cmd)
		be32(&b, v.Seq[0])
		be32(&b, v.Seq[1])
		be32(&b, v.Seq[2])
	}
	for _, f := range s.Fields {
		if f.LibExt && !withLibExt {
			continue
		}
		switch f.Kind {
		case U8, Count8, Len8:
			b.WriteByte(byte(v.U(f.Name)))
		case U16:
			var t [2]byte
			binary.BigEndian.PutUint16(t[:], uint16(v.U(f.Name)))
			b.Write(t[:])
		case U32, Len32:
			be32(&b, uint32(v.U(f.Name)))
		case U64:
			var t [8]byte
			binary.BigEndian.PutUint64(t[:], v.U(f.Name))
			b.Write(t[:])
		case FixStr, Bin, HexID:
			x := v.B(f.Name)
			b.Write(x)
			for i := len(x); i < f.W; i++ {
				b.WriteByte(0)
			}
		case CStr:
			b.Write(v.B(f.Name))
			b.WriteByte(0)
		case List:
			for _, x := range v.L(f.Name) {
				b.Write(x)
				for i := len(x); i < f.W; i++ {
					b.WriteByte(0)
				}
			}
		case Body:
			b.Write(v.B(f.Name))
		case Seq3:
			q := v.S3(f.Name)
			be32(&b, q[0])
			be32(&b, q[1])
			be32(&b, q[2])
		case TLVTail, OptTail:
			b.Write(EncodeTriplets(v.T(f.Name)))
		}
	}
	out := b.Bytes()
	if s.Hdr != HdrNone {
		binary.BigEndian.PutUint32(out[0:4], uint32(len(out)))
	}
	return out
}

func EncodeTriplets(ts []Triplet) []byte {
	var b bytes.Buffer
	for _, t := range ts {
		var h [4]byte
		binary.BigEndian.PutUint16(h[0:2], t.Tag)
		binary.BigEndian.PutUint16(h[2:4], uint16(len(t.Val)))
		b.Write(h[:])
		b.Write(t.Val)
	}
	return b.Bytes()
}

// ParseTriplets is the sequential reference parser. It returns the complete
// triplets found from the start, the offset where parsing stopped and whether
// the whole input was consumed cleanly.
func ParseTriplets(b []byte) (ts []Triplet, stop int, clean bool) {
	p := 0
	for p < len(b) {
		if len(b)-p < 4 {
			return ts, p, false
		}
		tag := binary.BigEndian.Uint16(b[p:])
		l := int(binary.BigEndian.Uint16(b[p+2:]))
		if len(b)-p-4 < l {
			return ts, p, false
		}
		ts = append(ts, Triplet{tag, append([]byte(nil), b[p+4:p+4+l]...)})
		p += 4 + l
	}
	return ts, p, true
}

// TripletMap: last duplicate wins, as in a sequential parse into a map.
func TripletMap(ts []Triplet) map[uint16][]byte {
	m := map[uint16][]byte{}
	for _, t := range ts {
		m[t.Tag] = t.Val
	}
	return m
}

type DecodeInfo struct {
	MandatoryEnd int            // offset where the mandatory part ends (start of the optional tail)
	Offsets      map[string]int // field name -> offset of its first octet
}

// Decode parses an image by the table. It fails when the input ends before
// the mandatory part is complete or the optional tail is not a clean triplet
// sequence.
func Decode(s *PDUSpec, b []byte) (*Vals, *DecodeInfo, error) {
	v := NewVals()
	info := &DecodeInfo{Offsets: map[string]int{}}
	p := 0
	need := func(n int) error {
		if len(b)-p < n {
			return fmt.Errorf("input ends at %d, need %d more at offset %d", len(b), n, p)
		}
		return nil
	}
	u32 := func() uint32 { x := binary.BigEndian.Uint32(b[p:]); p += 4; return x }
	if err := need(s.HeaderLen()); err != nil {
		return nil, nil, err
	}
	switch s.Hdr {
	case HdrCMPP, HdrSMGP:
		p += 4
		v.Cmd = u32()
		v.Seq[0] = u32()
	case HdrSMPP:
		p += 4
		v.Cmd = u32()
		v.Status = u32()
		v.Seq[0] = u32()
	case HdrSGIP:
		p += 4
		v.Cmd = u32()
		v.Seq[0], v.Seq[1], v.Seq[2] = u32(), u32(), u32()
	}
	for _, f := range s.Fields {
		if f.LibExt {
			continue
		}
		info.Offsets[f.Name] = p
		switch f.Kind {
		case U8, Count8, Len8:
			if err := need(1); err != nil {
				return nil, nil, err
			}
			v.F[f.Name] = uint64(b[p])
			p++
		case U16:
			if err := need(2); err != nil {
				return nil, nil, err
			}
			v.F[f.Name] = uint64(binary.BigEndian.Uint16(b[p:]))
			p += 2
		case U32, Len32:
			if err := need(4); err != nil {
				return nil, nil, err
			}
			v.F[f.Name] = uint64(u32())
		case U64:
			if err := need(8); err != nil {
				return nil, nil, err
			}
			v.F[f.Name] = binary.BigEndian.Uint64(b[p:])
			p += 8
		case FixStr:
			if err := need(f.W); err != nil {
				return nil, nil, err
			}
			x := b[p : p+f.W]
			if i := bytes.IndexByte(x, 0); i >= 0 {
				x = x[:i]
			}
			v.F[f.Name] = append([]byte{}, x...)
			p += f.W
		case Bin, HexID:
			if err := need(f.W); err != nil {
				return nil, nil, err
			}
			v.F[f.Name] = append([]byte{}, b[p:p+f.W]...)
			p += f.W
		case CStr:
			i := bytes.IndexByte(b[p:], 0)
			if i < 0 {
				return nil, nil, fmt.Errorf("unterminated C string at %d", p)
			}
			v.F[f.Name] = append([]byte{}, b[p:p+i]...)
			p += i + 1
		case List:
			n := int(v.U(countFieldFor(s, f.Name)))
			var l [][]byte
			for k := 0; k < n; k++ {
				if err := need(f.W); err != nil {
					return nil, nil, err
				}
				x := b[p : p+f.W]
				if i := bytes.IndexByte(x, 0); i >= 0 {
					x = x[:i]
				}
				l = append(l, append([]byte{}, x...))
				p += f.W
			}
			v.F[f.Name] = l
		case Body:
			n := int(v.U(countFieldFor(s, f.Name)))
			if err := need(n); err != nil {
				return nil, nil, err
			}
			v.F[f.Name] = append([]byte{}, b[p:p+n]...)
			p += n
		case Seq3:
			if err := need(12); err != nil {
				return nil, nil, err
			}
			v.F[f.Name] = [3]uint32{u32(), u32(), u32()}
		case TLVTail, OptTail:
			info.MandatoryEnd = p
			ts, _, clean := ParseTriplets(b[p:])
			if !clean {
				return nil, nil, fmt.Errorf("optional tail is not a clean triplet sequence")
			}
			v.F[f.Name] = ts
			p = len(b)
		}
	}
	if !s.HasTail() {
		info.MandatoryEnd = p
	}
	return v, info, nil
}

func countFieldFor(s *PDUSpec, target string) string {
	for _, f := range s.Fields {
		if f.Ref == target {
			return f.Name
		}
	}
	return ""
}

// CountFieldFor is exported for generators.
func CountFieldFor(s *PDUSpec, target string) string { return countFieldFor(s, target) }

// MandatoryLen returns the length of the mandatory part of the image Encode(s,v).
func MandatoryLen(s *PDUSpec, v *Vals) int {
	w := *v
	w.F = map[string]any{}
	for k, x := range v.F {
		w.F[k] = x
	}
	for _, f := range s.Fields {
		if f.Kind == TLVTail || f.Kind == OptTail {
			w.F[f.Name] = []Triplet(nil)
		}
	}
	return len(Encode(s, &w))
}

// Diff compares two values field-wise (nil == empty; tails as tag->value
// maps; header members included; the length word is never part of Vals).
// It returns "" when equal, else a description of the first difference.
func Diff(s *PDUSpec, a, b *Vals) string { return DiffOpt(s, a, b, false) }

// DiffOpt: with skipLibExt the members the specification does not define are not compared.
func DiffOpt(s *PDUSpec, a, b *Vals, skipLibExt bool) string {
	if a.Cmd != b.Cmd {
		return fmt.Sprintf("command id: %#x vs %#x", a.Cmd, b.Cmd)
	}
	if s.Hdr == HdrSMPP && a.Status != b.Status {
		return fmt.Sprintf("status: %#x vs %#x", a.Status, b.Status)
	}
	if s.Hdr == HdrSGIP {
		if a.Seq != b.Seq {
			return fmt.Sprintf("sequence words: %v vs %v", a.Seq, b.Seq)
		}
	} else if s.Hdr != HdrNone && a.Seq[0] != b.Seq[0] {
		return fmt.Sprintf("sequence: %#x vs %#x", a.Seq[0], b.Seq[0])
	}
	for _, f := range s.Fields {
		if f.LibExt && skipLibExt {
			continue
		}
		switch f.Kind {
		case U8, U16, U32, U64, Count8, Len8, Len32:
			if a.U(f.Name) != b.U(f.Name) {
				return fmt.Sprintf("field %s: %d vs %d", f.Name, a.U(f.Name), b.U(f.Name))
			}
		case FixStr, CStr, Bin, HexID, Body:
			if !bytes.Equal(a.B(f.Name), b.B(f.Name)) {
				return fmt.Sprintf("field %s: %s vs %s", f.Name, short(a.B(f.Name)), short(b.B(f.Name)))
			}
		case List:
			x, y := a.L(f.Name), b.L(f.Name)
			if len(x) != len(y) {
				return fmt.Sprintf("field %s: %d entries vs %d", f.Name, len(x), len(y))
			}
			for i := range x {
				if !bytes.Equal(x[i], y[i]) {
					return fmt.Sprintf("field %s[%d]: %s vs %s", f.Name, i, short(x[i]), short(y[i]))
				}
			}
		case Seq3:
			if a.S3(f.Name) != b.S3(f.Name) {
				return fmt.Sprintf("field %s: %v vs %v", f.Name, a.S3(f.Name), b.S3(f.Name))
			}
		case TLVTail, OptTail:
			if d := DiffTripletSets(TripletMap(a.T(f.Name)), TripletMap(b.T(f.Name))); d != "" {
				return "field " + f.Name + ": " + d
			}
		}
	}
	return ""
}

func DiffTripletSets(x, y map[uint16][]byte) string {
	var tags []int
	seen := map[uint16]bool{}
	for t := range x {
		tags = append(tags, int(t))
		seen[t] = true
	}
	for t := range y {
		if !seen[t] {
			tags = append(tags, int(t))
		}
	}
	sort.Ints(tags)
	for _, ti := range tags {
		t := uint16(ti)
		xv, xo := x[t]
		yv, yo := y[t]
		if xo != yo {
			return fmt.Sprintf("tag %#04x present=%v vs present=%v", t, xo, yo)
		}
		if !bytes.Equal(xv, yv) {
			return fmt.Sprintf("tag %#04x value %s vs %s", t, short(xv), short(yv))
		}
	}
	return ""
}

func short(b []byte) string {
	if len(b) > 40 {
		return fmt.Sprintf("%s…(%d octets)", hex.EncodeToString(b[:40]), len(b))
	}
	return fmt.Sprintf("%q", b)
}

// ---------------------------------------------------------------- JSON form of a value (replay files)

type JVals struct {
	Spec   string                `json:"spec"`
	Cmd    uint32                `json:"cmd"`
	Status uint32                `json:"status,omitempty"`
	Seq    [3]uint32             `json:"seq"`
	U      map[string]uint64     `json:"u,omitempty"`
	B      map[string]string     `json:"b,omitempty"` // hex
	L      map[string][]string   `json:"l,omitempty"`
	S3     map[string][3]uint32  `json:"s3,omitempty"`
	T      map[string][]JTriplet `json:"t,omitempty"`
}
type JTriplet struct {
	Tag uint16 `json:"tag"`
	Val string `json:"val"` // hex
}

func ToJ(s *PDUSpec, v *Vals) JVals {
	j := JVals{Spec: s.ID(), Cmd: v.Cmd, Status: v.Status, Seq: v.Seq, U: map[string]uint64{}, B: map[string]string{},
		L: map[string][]string{}, S3: map[string][3]uint32{}, T: map[string][]JTriplet{}}
	for _, f := range s.Fields {
		switch x := v.F[f.Name].(type) {
		case uint64:
			j.U[f.Name] = x
		case []byte:
			j.B[f.Name] = hex.EncodeToString(x)
		case [][]byte:
			l := []string{}
			for _, e := range x {
				l = append(l, hex.EncodeToString(e))
			}
			j.L[f.Name] = l
		case [3]uint32:
			j.S3[f.Name] = x
		case []Triplet:
			l := []JTriplet{}
			for _, e := range x {
				l = append(l, JTriplet{e.Tag, hex.EncodeToString(e.Val)})
			}
			j.T[f.Name] = l
		}
	}
	return j
}

func FromJ(j JVals) (*PDUSpec, *Vals) {
	var s *PDUSpec
	for _, x := range Specs {
		if x.ID() == j.Spec {
			s = x
		}
	}
	if s == nil {
		return nil, nil
	}
	v := NewVals()
	v.Cmd, v.Status, v.Seq = j.Cmd, j.Status, j.Seq
	for k, x := range j.U {
		v.F[k] = x
	}
	for k, x := range j.B {
		b, _ := hex.DecodeString(x)
		v.F[k] = b
	}
	for k, x := range j.L {
		var l [][]byte
		for _, e := range x {
			b, _ := hex.DecodeString(e)
			l = append(l, b)
		}
		v.F[k] = l
	}
	for k, x := range j.S3 {
		v.F[k] = x
	}
	for k, x := range j.T {
		var l []Triplet
		for _, e := range x {
			b, _ := hex.DecodeString(e.Val)
			l = append(l, Triplet{e.Tag, b})
		}
		v.F[k] = l
	}
	return s, v
}
