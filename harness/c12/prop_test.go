// C12 — results own their memory: no aliasing of input buffers or pooled buffers.
package c12

import (
	"bytes"
	"context"
	"encoding/binary"
	"encoding/json"
	"fmt"
	"io"
	"os"
	"reflect"
	"sort"
	"testing"

	sms "github.com/hujm2023/go-sms-protocol"
	"github.com/hujm2023/go-sms-protocol/cmpp"
	"github.com/hujm2023/go-sms-protocol/codec"
	dc "github.com/hujm2023/go-sms-protocol/datacoding"
	"github.com/hujm2023/go-sms-protocol/logger"
	"pgregory.net/rapid"

	"verifharness/gen"
	"verifharness/ref"
	"verifharness/vk"
)

var rec = vk.NewRecorder("C12")

func TestMain(m *testing.M) {
	logger.SetOutput(io.Discard)
	code := m.Run()
	rec.Flush("all")
	os.Exit(code)
}

// Op is one step of a history, described by data only (so that a history replays without the generator).
type Op struct {
	K      string     `json:"k"` // encode | decode | framedecode | string | split | batch | ucs2 | scribble
	Vals   *ref.JVals `json:"vals,omitempty"`
	Text   string     `json:"text_hex,omitempty"`
	Proto  string     `json:"proto,omitempty"`
	Coding int        `json:"coding,omitempty"`
	Idx    int        `json:"idx,omitempty"` // which live result (modulo the number of live results)
}

type Case struct {
	Ops []Op `json:"ops"`
}

type live struct {
	what       string
	step       int
	b          []byte // encoder output / ucs2 bytes
	parts      [][]byte
	str        string
	pdu        gen.Codec
	bind       *gen.Binding
	snapB      []byte
	snapP      [][]byte
	snapV      *ref.Vals
	isStr      bool
	fromDecode bool
}

// memory model of the network layer: one reused read buffer and one connection buffer
type conn struct{ buf []byte }

func (c *conn) Read(p []byte) (int, error) { n := copy(p, c.buf); c.buf = c.buf[n:]; return n, nil }
func (c *conn) Peek(n int) ([]byte, error) {
	if n > len(c.buf) {
		return c.buf, io.ErrUnexpectedEOF
	}
	return c.buf[:n], nil
}
func (c *conn) Discard(n int) (int, error) { c.buf = c.buf[n:]; return n, nil }
func (c *conn) Size() int                  { return len(c.buf) }

func scribble(b []byte, seed byte) {
	for i := range b {
		b[i] = 0xA5 ^ seed ^ byte(i*7)
	}
}

func runHistory(c Case) *vk.Violation {
	var v *vk.Violation
	if pn := vk.Guarded("history", "history/hang", func() any { return c }, func() { v = run(c) }); pn != "" {
		return vk.Violf("history/panic", c, "history panicked\n%s", pn)
	}
	return v
}

type kept struct {
	b    *sms.BatchDataCodingEncoder
	orig [][]byte
	step int
}

func run(c Case) *vk.Violation {
	var lives []*live
	var builders []*kept
	inbuf := make([]byte, 0, 1<<17) // the caller's reused input buffer
	netbuf := make([]byte, 1<<17)   // the network layer's read buffer behind the frame extractor
	check := func(step int, after string) *vk.Violation {
		for _, l := range lives {
			switch {
			case l.pdu != nil:
				if d := ref.Diff(l.bind.Spec, l.snapV, l.bind.Extract(l.pdu)); d != "" {
					key := l.bind.Spec.ID() + "/decoded-value-changed-after-" + after
					return vk.Violf(key, c, "the PDU %s decoded at step %d changed after step %d (%s): %s - it shares memory with the input buffer", l.bind.Spec.ID(), l.step, step, after, d)
				}
			case l.parts != nil:
				for i := range l.parts {
					if !bytes.Equal(l.parts[i], l.snapP[i]) {
						return vk.Violf(l.what+"/parts-changed-after-"+after, c, "part %d of the %s result of step %d changed after step %d (%s)", i, l.what, l.step, step, after)
					}
				}
			case l.isStr:
				if l.str != string(l.snapB) {
					return vk.Violf(l.what+"/string-changed-after-"+after, c, "the %s result of step %d changed after step %d (%s)", l.what, l.step, step, after)
				}
			default:
				if !bytes.Equal(l.b, l.snapB) {
					return vk.Violf(l.what+"/bytes-changed-after-"+after, c, "the %s result of step %d (%d octets) changed after step %d (%s): it aliases a pooled or shared buffer", l.what, l.step, len(l.b), step, after)
				}
			}
		}
		return nil
	}
	keep := func(l *live) {
		// results belong to the caller INCLUDING their spare capacity (a caller that appends writes there):
		// it is overwritten at once; whatever it was shared with shows as a changed result below
		vk.ScribbleSpare(l.b)
		for _, p := range l.parts {
			vk.ScribbleSpare(p)
		}
		lives = append(lives, l)
		if len(lives) > 48 {
			lives = lives[1:]
		}
	}
	edited := false
	for step, op := range c.Ops {
		after := op.K
		switch op.K {
		case "editdecoded":
			// the caller edits, in place, the byte slices of a PDU it decoded earlier (its own value)
			var pdus []*live
			for _, l := range lives {
				if l.pdu != nil {
					pdus = append(pdus, l)
				}
			}
			if len(pdus) == 0 {
				continue
			}
			l := pdus[op.Idx%len(pdus)]
			gen.OverwriteOwned(l.pdu)
			l.snapV = l.bind.Extract(l.pdu)
			edited = true
		case "encode":
			s, v := ref.FromJ(*op.Vals)
			b := gen.ByID(s.ID())
			pdu := b.Fill(v)
			out, err := pdu.IEncode()
			if err == nil {
				// with -tags verif a pooled buffer is overwritten with 0xDD when it is released: a result that
				// still points into it is wrong the moment it is returned (its length word no longer says len(out))
				if s.Hdr != ref.HdrNone && len(out) >= 4 && int(binary.BigEndian.Uint32(out)) != len(out) {
					return vk.Violf("IEncode:"+s.ID()+"/result-invalid-at-return", c, "step %d: IEncode of %s returned %d octets whose length word is %#x: the result points into a buffer that was released (and poisoned) before the call returned", step, s.ID(), len(out), binary.BigEndian.Uint32(out))
				}
				keep(&live{what: "IEncode:" + s.ID(), step: step, b: out, snapB: append([]byte{}, out...)})
				// the caller goes on using ITS value: overwriting the slices it put into the PDU must not reach
				// the bytes that were returned (an encoder that hands out a view of a large body would show here)
				rv := reflect.ValueOf(pdu).Elem()
				for i := 0; i < rv.NumField(); i++ {
					f := rv.Field(i)
					if !rv.Type().Field(i).IsExported() {
						continue
					}
					switch {
					case f.Kind() == reflect.Slice && f.Type().Elem().Kind() == reflect.Uint8:
						scribble(f.Bytes(), byte(step))
					case f.Kind() == reflect.Map:
						it := f.MapRange()
						for it.Next() {
							if m := it.Value().MethodByName("Value"); m.IsValid() {
								if out := m.Call(nil); len(out) == 1 && out[0].Kind() == reflect.Slice {
									scribble(out[0].Bytes(), byte(step))
								}
							}
						}
					}
				}
			}
		case "encodebad":
			// a failing encode (value longer than its slot) must not disturb anything either
			s, v := ref.FromJ(*op.Vals)
			for _, f := range s.Fields {
				if f.Kind == ref.FixStr {
					v.F[f.Name] = bytes.Repeat([]byte("x"), f.W+5)
					break
				}
			}
			_, _ = gen.ByID(s.ID()).Fill(v).IEncode()
		case "decode", "framedecode":
			s, v := ref.FromJ(*op.Vals)
			b := gen.ByID(s.ID())
			img, err := b.Fill(v).IEncode()
			if err != nil {
				continue
			}
			p := b.New()
			if op.K == "decode" {
				inbuf = append(inbuf[:0], img...)
				if p.IDecode(inbuf) != nil {
					continue
				}
				if edited && s.ID() != "smgp30.LoginResp" {
					// a caller has edited a value it had decoded earlier: what is decoded NOW must still be what the image carries
					if d := ref.Diff(s, gen.Normalise(b, v), b.Extract(p)); d != "" {
						return vk.Violf(s.ID()+"/decoded-value-wrong-after-caller-edited-an-earlier-result", c, "step %d: %s decodes to a value that differs from its image after the caller edited, in place, a value it had decoded earlier (the library serves decoded values from shared storage): %s", step, s.ID(), d)
					}
				}
				keep(&live{step: step, pdu: p, bind: b, snapV: b.Extract(p), fromDecode: true})
				scribble(inbuf[:cap(inbuf)], byte(step)) // the caller reuses its buffer at once
			} else {
				if b.Spec.Hdr == ref.HdrNone {
					continue
				}
				n := copy(netbuf, img)
				cn := &conn{buf: netbuf[:n]}
				var cd codec.Codec = codec.NewCMPPCodec()
				if b.Spec.Proto == "smpp34" {
					cd = codec.NewSMPPCodec()
				}
				frame, err := cd.Decode(cn)
				if err != nil || p.IDecode(frame) != nil {
					continue
				}
				keep(&live{step: step, pdu: p, bind: b, snapV: b.Extract(p), fromDecode: true})
				scribble(netbuf, byte(step)) // the network layer refills its read buffer
			}
		case "redecode":
			// a receive loop that reuses ONE PDU value: decode, take the slices out of it (destination list,
			// body, optional parameters), decode the next frame into the same value. What was taken out
			// earlier was produced by a decoder and must not change.
			s, v := ref.FromJ(*op.Vals)
			b := gen.ByID(s.ID())
			img1, err := b.Fill(v).IEncode()
			if err != nil {
				continue
			}
			p := b.New()
			if p.IDecode(append([]byte{}, img1...)) != nil {
				continue
			}
			type member struct {
				name string
				v    reflect.Value // copy of the slice header / map reference as the caller holds it
				snap string
			}
			var ms []member
			rv := reflect.ValueOf(p).Elem()
			for i := 0; i < rv.NumField(); i++ {
				f := rv.Field(i)
				if !rv.Type().Field(i).IsExported() {
					continue
				}
				if (f.Kind() == reflect.Slice && f.Len() > 0) || (f.Kind() == reflect.Map && f.Len() > 0) {
					cp := reflect.New(f.Type()).Elem()
					cp.Set(f) // the caller's own variable holding the same slice / map
					ms = append(ms, member{rv.Type().Field(i).Name, cp, fmt.Sprintf("%v", memberDump(cp))})
				}
			}
			// the next frame: same type, other contents, same or smaller counts (so that a reused backing array suffices)
			v2 := gen.SeedVals(b, uint64(step)*2654435761+uint64(op.Idx), 1+op.Idx%3, 7)
			img2, err := b.Fill(v2).IEncode()
			if err != nil {
				continue
			}
			if p.IDecode(append([]byte{}, img2...)) != nil {
				continue
			}
			for _, m := range ms {
				if now := fmt.Sprintf("%v", memberDump(m.v)); now != m.snap {
					return vk.Violf(s.ID()+"/member-taken-out-changed-after-redecode", c, "%s.%s was taken out of the PDU decoded first; decoding the next frame into the same PDU value changed it:\nbefore %s\nafter  %s", s.ID(), m.name, clipS(m.snap), clipS(now))
				}
			}
			keep(&live{step: step, pdu: p, bind: b, snapV: b.Extract(p), fromDecode: true})
		case "string":
			var pdus []*live
			for _, l := range lives {
				if l.pdu != nil && gen.AsPDU(l.pdu) != nil {
					pdus = append(pdus, l)
				}
			}
			if len(pdus) == 0 {
				continue
			}
			l := pdus[op.Idx%len(pdus)]
			str := gen.AsPDU(l.pdu).String()
			keep(&live{what: "String:" + l.bind.Spec.ID(), step: step, str: str, isStr: true, snapB: []byte(str)})
		case "split":
			text := string(vk.UnHex(op.Text))
			var parts [][]byte
			var err error
			if op.Proto == "cmpp" {
				parts, _, err = sms.EncodeCMPPContentAndSplit(context.Background(), text, dc.CMPPDataCoding(op.Coding), byte(step))
			} else {
				parts, _, err = sms.EncodeSMPPContentAndSplit(context.Background(), text, dc.SMPPDataCoding(op.Coding), byte(step))
			}
			if err == nil && len(parts) > 0 {
				keep(&live{what: "split:" + op.Proto, step: step, parts: parts, snapP: deep(parts)})
			}
		case "batch":
			text := string(vk.UnHex(op.Text))
			var list []dc.ProtocolDataCoding
			pr := sms.CMPP
			if op.Proto == "smpp" {
				pr = sms.SMPP
				list = []dc.ProtocolDataCoding{dc.SMPP_CODING_UCS2, dc.SMPP_CODING_GSM7_PACKED, dc.SMPP_CODING_GSM7_UNPACKED, dc.SMPP_CODING_ASCII}
			} else {
				list = []dc.ProtocolDataCoding{dc.CMPP_CODING_UCS2, dc.CMPP_CODING_GBK, dc.CMPP_CODING_ASCII}
			}
			builder := sms.NewBatchDataCodingEncoder().Protocol(pr).Content(text, byte(step)).DataCodings(list)
			parts, _, err := builder.Build(context.Background())
			if err == nil && len(parts) > 0 {
				keep(&live{what: "batch:" + op.Proto, step: step, parts: parts, snapP: deep(parts)})
				builders = append(builders, &kept{b: builder, orig: deep(parts), step: step})
				if len(builders) > 8 {
					builders = builders[1:]
				}
			}
		case "rebuild":
			// the caller keeps a builder and calls Build again: the result is a function of the request
			// alone and belongs to this caller - whatever happened to the parts returned earlier
			if len(builders) == 0 {
				continue
			}
			kb := builders[op.Idx%len(builders)]
			parts, _, err := kb.b.Build(context.Background())
			if err != nil || len(parts) != len(kb.orig) {
				return vk.Violf("batch/rebuild-differs", c, "Build called again on the builder of step %d returned %d parts, %v; the first call returned %d parts", kb.step, len(parts), err, len(kb.orig))
			}
			for i := range parts {
				if !bytes.Equal(parts[i], kb.orig[i]) {
					return vk.Violf("batch/rebuild-returns-memory-handed-out-earlier", c, "Build called again on the builder of step %d: part %d differs from what the first call returned (the caller had overwritten its copy: the library kept and re-issued the caller's memory)", kb.step, i)
				}
			}
			keep(&live{what: "rebuild:" + op.Proto, step: step, parts: parts, snapP: deep(parts)})
		case "ucs2":
			s := cmpp.Utf8ToUcs2Pooled(string(vk.UnHex(op.Text)))
			if want := ref.UTF16BE(string(vk.UnHex(op.Text))); s != string(want) {
				return vk.Violf("Utf8ToUcs2Pooled/result-wrong-at-return", c, "step %d: Utf8ToUcs2Pooled of %d octets returned %d octets that are not the UTF-16BE form (first octets %x): the result points into the pooled buffer, which was released before the call returned", step, len(op.Text)/2, len(s), clipS(s[:min(len(s), 16)]))
			}
			keep(&live{what: "Utf8ToUcs2Pooled", step: step, str: s, isStr: true, snapB: []byte(s)})
		case "accessor":
			// what the accessors of a decoded PDU's optional parameters hand out belongs to the caller as well
			var pdus []*live
			for _, l := range lives {
				if l.pdu != nil {
					pdus = append(pdus, l)
				}
			}
			if len(pdus) == 0 {
				continue
			}
			l := pdus[op.Idx%len(pdus)]
			rv := reflect.ValueOf(l.pdu).Elem()
			for _, name := range []string{"Options", "TLVs"} {
				f := rv.FieldByName(name)
				if !f.IsValid() || f.Len() == 0 {
					continue
				}
				it := f.MapRange()
				for it.Next() {
					m := it.Value().MethodByName("Bytes")
					if !m.IsValid() {
						continue
					}
					out := m.Call(nil)[0].Bytes()
					keep(&live{what: "accessor:" + name + ".Bytes", step: step, b: out, snapB: append([]byte{}, out...)})
				}
			}
		case "codec":
			// the content codecs used directly on the caller's (reused) buffer
			in := append(inbuf[:0], vk.UnHex(op.Text)...)
			var cd dc.Codec
			switch op.Coding % 6 {
			case 0:
				cd = dc.Ascii(in)
			case 1:
				cd = dc.Latin1(in)
			case 2:
				cd = dc.UCS2(in)
			case 3:
				cd = dc.GB18030(in)
			case 4:
				cd = dc.GSM7Unpacked(in)
			default:
				cd = dc.GSM7Packed(in)
			}
			if out, err := cd.Encode(); err == nil && len(out) > 0 {
				keep(&live{what: "codec.Encode:" + string(cd.Name()), step: step, b: out, snapB: append([]byte{}, out...)})
				if dec, err := cd.Decode(); err == nil && len(dec) > 0 {
					keep(&live{what: "codec.Decode:" + string(cd.Name()), step: step, b: dec, snapB: append([]byte{}, dec...)})
				}
			}
			scribble(inbuf[:cap(inbuf)], byte(step))
		case "scribble":
			// the caller owns a returned output and may overwrite it: nothing else may change
			var outs []*live
			for _, l := range lives {
				if l.pdu == nil && !l.isStr {
					outs = append(outs, l)
				}
			}
			if len(outs) == 0 {
				continue
			}
			l := outs[op.Idx%len(outs)]
			if l.parts != nil {
				for i := range l.parts {
					scribble(l.parts[i], byte(step))
				}
				l.snapP = deep(l.parts)
			} else {
				scribble(l.b, byte(step))
				l.snapB = append([]byte{}, l.b...)
			}
		}
		if v := check(step, after); v != nil {
			return v
		}
	}
	return nil
}

// memberDump renders what a kept slice / map currently holds (maps in key order; optional-parameter values through their Bytes method).
func memberDump(v reflect.Value) any {
	switch v.Kind() {
	case reflect.Map:
		var keys []string
		m := map[string]string{}
		it := v.MapRange()
		for it.Next() {
			k := fmt.Sprint(it.Key().Interface())
			val := fmt.Sprintf("%v", it.Value().Interface())
			if bm := it.Value().MethodByName("Bytes"); bm.IsValid() {
				val = fmt.Sprintf("%x", bm.Call(nil)[0].Bytes())
			}
			keys = append(keys, k)
			m[k] = val
		}
		sort.Strings(keys)
		out := ""
		for _, k := range keys {
			out += k + "=" + m[k] + ";"
		}
		return out
	default:
		return fmt.Sprintf("%#v", v.Interface())
	}
}

func clipS(s string) string {
	if len(s) > 300 {
		return s[:300] + "..."
	}
	return s
}

func deep(p [][]byte) [][]byte {
	out := make([][]byte, len(p))
	for i := range p {
		out[i] = append([]byte{}, p[i]...)
	}
	return out
}

var reg = vk.Registry{"history": func(raw json.RawMessage) *vk.Violation {
	var c Case
	_ = json.Unmarshal(raw, &c)
	return runHistory(c)
}}

func TestReplay(t *testing.T) { vk.RunReplay(t, reg) }

var texts = []string{"hello", "1234567@abcdefgh", "中文短信内容测试", "[escape]{and}~more^€", "a long ascii text that needs more than one part: " + string(bytes.Repeat([]byte("0123456789"), 20)),
	string(bytes.Repeat([]byte("中文"), 80)), string(bytes.Repeat([]byte("[a"), 100))}

var opGen = rapid.Custom(func(t *rapid.T) Op {
	k := rapid.SampledFrom([]string{"encode", "encode", "encodebad", "decode", "decode", "decode", "framedecode", "string", "split", "batch", "batch", "rebuild", "ucs2", "scribble", "scribble", "accessor", "codec", "redecode", "editdecoded"}).Draw(t, "k")
	op := Op{K: k, Idx: rapid.IntRange(0, 47).Draw(t, "idx")}
	switch k {
	case "encodebad":
		b := gen.ByID(rapid.SampledFrom([]string{"cmpp20.PduSubmit", "cmpp30.Submit", "sgip12.Submit", "smgp30.Submit", "cmpp20.PduConnect", "smgp30.Login"}).Draw(t, "badtype"))
		j := ref.ToJ(b.Spec, gen.DrawVals(t, b, gen.Opts{NoTails: true}))
		op.Vals = &j
	case "redecode":
		b := gen.ByID(rapid.SampledFrom([]string{"smgp30.Submit", "smgp30.Deliver", "smpp34.SubmitSm", "smpp34.DeliverSm", "smpp34.BindResp", "cmpp20.PduSubmit", "cmpp30.Submit", "sgip12.Submit", "sgip12.Deliver", "cmpp20.PduDeliver", "cmpp30.Deliver"}).Draw(t, "retype"))
		j := ref.ToJ(b.Spec, gen.DrawVals(t, b, gen.Opts{}))
		op.Vals = &j
	case "encode", "decode", "framedecode":
		b := gen.DrawBinding(t, k != "framedecode")
		// types whose decoded value holds slices are preferred for decodes
		if k != "encode" && rapid.Bool().Draw(t, "prefertail") {
			b = gen.ByID(rapid.SampledFrom([]string{"smgp30.Submit", "smgp30.Deliver", "smpp34.SubmitSm", "smpp34.DeliverSm", "smpp34.BindResp", "cmpp20.PduSubmit", "sgip12.Submit"}).Draw(t, "tailtype"))
		}
		j := ref.ToJ(b.Spec, gen.DrawVals(t, b, gen.Opts{}))
		op.Vals = &j
	case "split", "batch", "ucs2", "codec":
		op.Text = vk.Hex([]byte(rapid.SampledFrom(texts).Draw(t, "text")))
		if k == "ucs2" && rapid.IntRange(0, 11).Draw(t, "hugeucs2") == 0 {
			// more than 32768 UTF-16 units: the pooled conversion buffer grows beyond 64 KiB and stays that large
			op.Text = vk.Hex(bytes.Repeat([]byte("0123456789abcdef中"), 2100))
		}
		op.Proto = rapid.SampledFrom([]string{"cmpp", "smpp"}).Draw(t, "proto")
		if op.Proto == "cmpp" {
			op.Coding = rapid.SampledFrom([]int{0, 8, 15}).Draw(t, "coding")
		} else {
			op.Coding = rapid.SampledFrom([]int{0, 1, 3, 8, 99}).Draw(t, "coding")
		}
	}
	return op
})

func TestHistories(t *testing.T) {
	rec.RunProbes(t, reg)
	rec.RunRegress(t, reg)
	maxLen := rec.Env().Pick(200, 1000)
	rapid.Check(t, func(t *rapid.T) {
		n := rapid.OneOf(rapid.IntRange(1, 40), rapid.IntRange(1, maxLen)).Draw(t, "len")
		ops := rapid.SliceOfN(opGen, n, n).Draw(t, "ops")
		c := Case{Ops: ops}
		rec.Eval()
		// non-trivial: a decode-then-scribble followed by a later pool-using call, and an encoder output that survived a later encode
		firstDecode, firstEncode, laterPool, laterEncode := -1, -1, false, false
		cnt := map[string]int{}
		for i, op := range ops {
			cnt[op.K]++
			switch op.K {
			case "decode", "framedecode":
				if firstDecode < 0 {
					firstDecode = i
				}
			case "encode":
				if firstEncode >= 0 {
					laterEncode = true
				} else {
					firstEncode = i
				}
			}
			if firstDecode >= 0 && i > firstDecode && (op.K == "encode" || op.K == "string" || op.K == "split" || op.K == "ucs2" || op.K == "batch") {
				laterPool = true
			}
		}
		if laterPool && laterEncode {
			rec.NonTrivial("h", fmt.Sprint(len(ops)), hashOps(ops))
			rec.Class("nontrivial_history")
		}
		for k, v := range cnt {
			rec.ClassN("op:"+k, int64(v))
		}
		if len(ops) <= 6 {
			rec.Sample("history", c)
		}
		rec.Report(t, "history", runHistory(c))
	})
}

func hashOps(ops []Op) []byte {
	var b bytes.Buffer
	for _, op := range ops {
		b.WriteString(op.K)
		var n [4]byte
		binary.BigEndian.PutUint32(n[:], uint32(op.Idx))
		b.Write(n[:])
		b.WriteString(op.Text)
		if op.Vals != nil {
			j, _ := json.Marshal(op.Vals)
			b.Write(j)
		}
	}
	return b.Bytes()
}
