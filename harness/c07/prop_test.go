// C07 — every part fits one SMS and carries a correct, parseable concatenation header.
package c07

import (
	"encoding/json"
	"fmt"
	"os"
	"testing"

	sms "github.com/hujm2023/go-sms-protocol"
	"pgregory.net/rapid"

	"verifharness/ref"
	"verifharness/splitk"
	"verifharness/vk"
)

var rec = vk.NewRecorder("C07")

func TestMain(m *testing.M) {
	code := m.Run()
	rec.Flush("all")
	os.Exit(code)
}

// ParseCase: an input for ParseLongSmsContent.
type ParseCase struct {
	Content string `json:"content_hex"`
}

// refParse is the reference parser of the two header forms.
func refParse(b []byte) (ref16, total, seq int, payload []byte, ok bool) {
	if len(b) >= 6 && b[0] == 5 && b[1] == 0 && b[2] == 3 {
		return int(b[3]), int(b[4]), int(b[5]), b[6:], true
	}
	if len(b) >= 7 && b[0] == 6 && b[1] == 8 && b[2] == 4 {
		return int(b[3])<<8 | int(b[4]), int(b[5]), int(b[6]), b[7:], true
	}
	return 0, 0, 0, b, false
}

func checkParse(c ParseCase) *vk.Violation {
	in := vk.UnHex(c.Content)
	wr, wt, ws, wp, wok := refParse(in)
	var fk, total, idx int
	var rest string
	var valid bool
	if pn := vk.Guarded("parse", "ParseLongSmsContent/hang", func() any { return c }, func() {
		fk, total, idx, rest, valid = sms.ParseLongSmsContent(string(in))
	}); pn != "" {
		return vk.Violf("ParseLongSmsContent/panic", c, "ParseLongSmsContent(%x) panicked\n%s", in, pn)
	}
	if valid != wok {
		return vk.Violf("ParseLongSmsContent/validity", c, "ParseLongSmsContent(%x): concatenated=%v, reference says %v", clip(in), valid, wok)
	}
	if !wok {
		if rest != string(in) {
			return vk.Violf("ParseLongSmsContent/not-concatenated-content-altered", c, "ParseLongSmsContent(%x) reports 'not concatenated' but returns content %x", clip(in), clip([]byte(rest)))
		}
		return nil
	}
	form := "8-bit-ref"
	if in[0] == 6 {
		form = "16-bit-ref"
	}
	if fk != wr {
		return vk.Violf("ParseLongSmsContent/"+form+"/reference", c, "ParseLongSmsContent(%x): reference %d, header carries %d", clip(in), fk, wr)
	}
	if total != wt || idx != ws {
		return vk.Violf("ParseLongSmsContent/"+form+"/counters", c, "ParseLongSmsContent(%x): total/seq %d/%d, header carries %d/%d", clip(in), total, idx, wt, ws)
	}
	if rest != string(wp) {
		return vk.Violf("ParseLongSmsContent/"+form+"/payload", c, "ParseLongSmsContent(%x): payload %x, want %x", clip(in), clip([]byte(rest)), clip(wp))
	}
	return nil
}

func clip(b []byte) []byte {
	if len(b) > 32 {
		return b[:32]
	}
	return b
}

var reg = vk.Registry{
	"split": func(raw json.RawMessage) *vk.Violation {
		var c splitk.Case
		_ = json.Unmarshal(raw, &c)
		r := splitk.Run(c)
		if v := splitk.Shape(c, r); v != nil {
			return v
		}
		return parseParts(c, r)
	},
	"parse": func(raw json.RawMessage) *vk.Violation {
		var c ParseCase
		_ = json.Unmarshal(raw, &c)
		return checkParse(c)
	},
	"batchsplit": func(raw json.RawMessage) *vk.Violation {
		var c splitk.Case
		_ = json.Unmarshal(raw, &c)
		return splitk.Shape(c, splitk.RunBatch(c))
	},
}

func init() { reg["sequence"] = vk.SequenceReplayer(reg) }

func TestReplay(t *testing.T) { vk.RunReplay(t, reg) }

// parseParts: parsing each produced part returns exactly ref/total/seq and the payload.
func parseParts(c splitk.Case, r splitk.Result) *vk.Violation {
	if r.Err != nil || r.Panic != "" || len(r.Parts) < 2 {
		return nil
	}
	for i, p := range r.Parts {
		if len(p) < 6 {
			continue
		}
		fk, total, idx, rest, valid := sms.ParseLongSmsContent(string(p))
		if !valid || fk != int(c.Ref) || total != len(r.Parts) || idx != i+1 || rest != string(p[6:]) {
			return vk.Violf(fmt.Sprintf("%s/coding-%d/produced-part-does-not-parse-back", c.Proto, c.Coding), c, "part %d of %d parses as valid=%v ref=%d total=%d seq=%d (caller's ref %d)", i+1, len(r.Parts), valid, fk, total, idx, c.Ref)
		}
	}
	return nil
}

func eval(t vk.TB, c splitk.Case, constructed bool) {
	r := splitk.Run(c)
	rec.Eval()
	rec.Class(fmt.Sprintf("%s_coding_%d", c.Proto, c.Coding))
	if len(r.Parts) >= 2 || r.Err != nil {
		if constructed {
			rec.NonTrivialConstructed(1)
		} else {
			rec.NonTrivial(c.Proto, c.Coding, c.Ref, c.Text)
		}
		rec.Class("multi_part_or_refused")
	}
	if r.Err != nil {
		rec.Class("refused_with_error")
	}
	if len(r.Parts) >= 250 {
		rec.Class("parts>=250")
	}
	rec.Sample(c.Proto, map[string]any{"proto": c.Proto, "coding": c.Coding, "ref": c.Ref, "text_bytes": len(c.Text) / 2, "parts": len(r.Parts), "err": fmt.Sprint(r.Err)})
	rec.Report(t, "split", splitk.Shape(c, r))
	rec.Report(t, "split", parseParts(c, r))
	// the batch builder with this coding as its only candidate is the third entry point
	if c.TextString() != "" {
		rec.Eval()
		if v := splitk.Shape(c, splitk.RunBatch(c)); v != nil {
			v.Key = "batch:" + v.Key
			rec.Report(t, "batchsplit", v)
		}
	}
	// the same text and coding number through the OTHER protocol's entry point right afterwards, then this
	// one again: each call is a function of its own arguments
	if len(r.Parts) >= 2 && !constructed {
		tw := splitk.Twin(c)
		rec.Eval()
		rec.Class("same_text_other_protocol_right_after")
		if v := splitk.Shape(tw, splitk.Run(tw)); v != nil {
			v.Key = "after-same-text-other-protocol/" + v.Key
			v.Case = vk.SeqCase{Kind: "split", First: c, Then: tw}
			rec.Report(t, "sequence", v)
		} else if v := splitk.Shape(c, splitk.Run(c)); v != nil {
			v.Key = "after-same-text-other-protocol/" + v.Key
			v.Case = vk.SeqCase{Kind: "split", First: c, Then: tw}
			rec.Report(t, "sequence", v)
		}
	}
}

func TestGrid(t *testing.T) {
	rec.RunProbes(t, reg)
	rec.RunRegress(t, reg)
	env := rec.Env()
	for i, c := range splitk.GridCases() {
		if env.Mine(i) {
			eval(t, c, true)
		}
	}
	// up to and beyond 255 parts, every coding of both protocols
	i := 0
	for _, pc := range []struct {
		proto  string
		coding int
		ch     string
		w      int
	}{{"cmpp", 0, "a", 1}, {"cmpp", 8, "中", 2}, {"cmpp", 9, "中", 2}, {"cmpp", 15, "a", 1}, {"cmpp", 15, "中", 2},
		{"smpp", 0, "a", 1}, {"smpp", 1, "a", 1}, {"smpp", 3, "é", 1}, {"smpp", 8, "中", 2}, {"smpp", 99, "a", 1}, {"smpp", 99, "[", 2}, {"smpp", 7, "a", 2},
		// contents made of multi-unit characters only: every part ends early, so the part count exceeds ceil(units/capacity)
		{"smpp", 99, "é", 1}, {"smpp", 0, "é", 1}, {"smpp", 3, "é", 1}, // one unit, two UTF-8 octets: byte length far above the unit count
		{"smpp", 0, "[", 2}, {"smpp", 0, "€", 2}, {"smpp", 8, "😀", 4}, {"cmpp", 8, "😀", 4}, {"cmpp", 9, "𠮷", 4}, {"cmpp", 15, "😀", 4}, {"cmpp", 15, "中", 2}} {
		k, ok := splitk.KindOf(pc.proto, pc.coding)
		if !ok {
			k = ref.KUCS2
		}
		_, per := k.Limits()
		eff := per - per%pc.w // what a part really holds when every character is pc.w units wide
		for _, units := range []int{254 * per, 255*per - 1, 255 * per, 255*per + 1, 255*per + 2, 256 * per, 300 * per,
			254 * eff, 255*eff - pc.w, 255 * eff, 255*eff + pc.w, 255*eff + 2*pc.w, 256 * eff} {
			i++
			if !env.Mine(i) {
				continue
			}
			n := units / pc.w
			b := make([]byte, 0, n*len(pc.ch))
			for j := 0; j < n; j++ {
				b = append(b, pc.ch...)
			}
			eval(t, splitk.Case{Proto: pc.proto, Coding: pc.coding, Ref: byte(i), Text: vk.Hex(b), Note: fmt.Sprintf("%d units", units)}, true)
		}
	}
	rec.Exhaustive("boundary grid of C06 plus 254..300 parts for every coding")
}

func TestRandomSplit(t *testing.T) {
	max := rec.Env().Pick(3000, 40000)
	rapid.Check(t, func(t *rapid.T) { eval(t, splitk.DrawCase(t, max), false) })
}

// TestParserExhaustive: every (ref,total,seq) in 0..255^3 for the 6-octet form,
// all 65536 references x 16 (total,seq) pairs for the 7-octet form, payload
// lengths 0..3, every near-miss header, short inputs.
func TestParserExhaustive(t *testing.T) {
	env := rec.Env()
	lo, hi := env.Range(256)
	var n int64
	buf := []byte{5, 0, 3, 0, 0, 0, 'x', 'y', 'z'}
	for a := lo; a < hi; a++ {
		for b := 0; b < 256; b++ {
			for c := 0; c < 256; c++ {
				buf[3], buf[4], buf[5] = byte(a), byte(b), byte(c)
				pl := (a + b + c) % 4
				in := buf[:6+pl]
				fk, total, idx, rest, valid := sms.ParseLongSmsContent(string(in))
				n++
				if !valid || fk != a || total != b || idx != c || rest != string(in[6:]) {
					rec.Report(t, "parse", checkParse(ParseCase{vk.Hex(in)}))
				}
			}
		}
	}
	rec.Exhaustive("6-octet header: every (ref,total,seq) in 0..255^3")
	pairs := [][2]byte{{0, 0}, {1, 1}, {2, 1}, {2, 2}, {255, 1}, {255, 255}, {3, 2}, {16, 9}, {0, 1}, {1, 0}, {128, 127}, {127, 128}, {254, 255}, {10, 10}, {7, 3}, {99, 100}}
	rlo, rhi := env.Range(65536)
	b7 := []byte{6, 8, 4, 0, 0, 0, 0, 'p', 'q', 'r'}
	for r16 := rlo; r16 < rhi; r16++ {
		for pi, p := range pairs {
			b7[3], b7[4], b7[5], b7[6] = byte(r16>>8), byte(r16), p[0], p[1]
			in := b7[:7+(r16+pi)%4]
			fk, total, idx, rest, valid := sms.ParseLongSmsContent(string(in))
			n++
			if !valid || fk != r16 || total != int(p[0]) || idx != int(p[1]) || rest != string(in[7:]) {
				rec.Report(t, "parse", checkParse(ParseCase{vk.Hex(in)}))
			}
		}
	}
	rec.Exhaustive("7-octet header: every 16-bit reference x 16 (total,seq) pairs")
	// every string of 0..6 octets over the octets that mean something in a user-data header (lengths and
	// information-element identifiers: 0..8, 0x24, 0x25, 0xff): every short or near-miss header, every
	// composite header of other information elements, every header that ends exactly where the content ends
	alpha := []byte{0, 1, 2, 3, 4, 5, 6, 7, 8, 0x24, 0x25, 0xff}
	agree := func(in []byte) (ok bool) {
		defer func() {
			if recover() != nil {
				ok = false
			}
		}()
		wr, wt, ws, wp, wok := refParse(in)
		fk, total, idx, rest, valid := sms.ParseLongSmsContent(string(in))
		return valid == wok && rest == string(wp) && (!wok || (fk == wr && total == wt && idx == ws))
	}
	idx := 0
	for l := 0; l <= 6; l++ {
		cnt := 1
		for i := 0; i < l; i++ {
			cnt *= len(alpha)
		}
		in := make([]byte, l)
		for x := 0; x < cnt; x++ {
			idx++
			if !env.Mine(idx) {
				continue
			}
			y := x
			for i := 0; i < l; i++ {
				in[i] = alpha[y%len(alpha)]
				y /= len(alpha)
			}
			n++
			if !agree(in) {
				rec.Report(t, "parse", checkParse(ParseCase{vk.Hex(in)}))
			}
		}
	}
	rec.Exhaustive("every string of 0..6 octets over {0..8, 0x24, 0x25, 0xff}")
	rec.EvalN(n)
	rec.NonTrivialConstructed(n)
	rec.Sample("parse", ParseCase{"0608040102030141"})
	if env.Shard == 0 {
		// near misses: each of the first three octets replaced by every other value, both forms; short inputs; the 7-octet magic at length exactly 6
		for _, base := range [][]byte{{5, 0, 3, 9, 2, 1, 'a', 'b'}, {6, 8, 4, 1, 2, 2, 1, 'a', 'b'}} {
			for pos := 0; pos < 3; pos++ {
				for v := 0; v < 256; v++ {
					in := append([]byte{}, base...)
					in[pos] = byte(v)
					rec.Eval()
					rec.NonTrivialConstructed(1)
					rec.Report(t, "parse", checkParse(ParseCase{vk.Hex(in)}))
				}
			}
			for l := 0; l <= len(base); l++ {
				rec.Eval()
				rec.Report(t, "parse", checkParse(ParseCase{vk.Hex(base[:l])}))
			}
		}
		rec.Exhaustive("near-miss headers: every substitution of each of the first three octets, every truncation")
	}
}

func TestParserRandom(t *testing.T) {
	rapid.Check(t, func(t *rapid.T) {
		var in []byte
		switch rapid.IntRange(0, 5).Draw(t, "shape") {
		case 0:
			in = rapid.SliceOfN(rapid.Byte(), 0, 40).Draw(t, "bytes")
		case 1:
			in = append([]byte{5, 0, 3}, rapid.SliceOfN(rapid.Byte(), 0, 40).Draw(t, "rest")...)
		case 2:
			in = append([]byte{6, 8, 4}, rapid.SliceOfN(rapid.Byte(), 0, 40).Draw(t, "rest")...)
		case 3:
			in = rapid.SliceOfN(rapid.SampledFrom([]byte{0, 3, 4, 5, 6, 8}), 0, 12).Draw(t, "magicish")
		default:
			in = DrawUDH(t)
		}
		rec.Eval()
		if _, _, _, _, ok := refParse(in); ok {
			rec.NonTrivial("parse", in)
		}
		rec.Report(t, "parse", checkParse(ParseCase{vk.Hex(in)}))
	})
}

// DrawUDH draws a user-data header after the grammar of 3GPP TS 23.040 9.2.3.24 - UDHL, then information
// elements (identifier, length, data) of the identifiers in use (concatenation 8/16 bit, application ports
// 8/16 bit, national language shift tables, others) with their prescribed or a wrong length - followed by
// 0..5 payload octets, optionally cut at a drawn point (in particular right after an identifier octet).
func DrawUDH(t *rapid.T) []byte {
	ieLen := map[byte]int{0x00: 3, 0x08: 4, 0x04: 2, 0x05: 4, 0x24: 1, 0x25: 1, 0x01: 2, 0x20: 1, 0x0a: 4}
	ids := []byte{0x00, 0x08, 0x04, 0x05, 0x24, 0x25, 0x01, 0x20, 0x0a}
	n := rapid.IntRange(1, 3).Draw(t, "ies")
	var body []byte
	for i := 0; i < n; i++ {
		id := rapid.OneOf(rapid.SampledFrom(ids), rapid.SampledFrom(ids), rapid.Byte()).Draw(t, "iei")
		l, ok := ieLen[id]
		if !ok {
			l = rapid.IntRange(0, 6).Draw(t, "iedl")
		}
		dl := l + rapid.SampledFrom([]int{0, 0, 0, 0, 1, -1}).Draw(t, "iedlerr")
		if dl < 0 {
			dl = 0
		}
		body = append(body, id, byte(dl))
		body = append(body, rapid.SliceOfN(rapid.Byte(), l, l).Draw(t, "ied")...)
	}
	udhl := len(body) + rapid.SampledFrom([]int{0, 0, 0, 0, 1, -1, 2}).Draw(t, "udhlerr")
	if udhl < 0 {
		udhl = 0
	}
	out := append([]byte{byte(udhl)}, body...)
	out = append(out, rapid.SliceOfN(rapid.Byte(), 0, 5).Draw(t, "payload")...)
	if rapid.IntRange(0, 2).Draw(t, "cut") == 0 {
		out = out[:rapid.IntRange(0, len(out)).Draw(t, "cutat")]
	}
	return out
}
