// C08 — GSM 7-bit alphabet and septet packing follow 3GPP TS 23.038.
package c08

import (
	"bytes"
	"encoding/json"
	"fmt"
	"os"
	"testing"
	"unicode/utf8"

	"github.com/hujm2023/go-sms-protocol/datacoding"
	g "github.com/hujm2023/go-sms-protocol/datacoding/gsm7encoding"
	"golang.org/x/text/transform"
	"pgregory.net/rapid"

	"verifharness/gen"
	"verifharness/ref"
	"verifharness/vk"
)

var rec = vk.NewRecorder("C08")

func TestMain(m *testing.M) {
	vk.Disturb = gen.Disturb
	code := m.Run()
	rec.Flush("all")
	os.Exit(code)
}

type RuneCase struct {
	R int32 `json:"r"`
}
type PairCase struct {
	A, B byte
}
type SeqCase struct {
	Septets string `json:"septets"` // hex, one septet per octet
}
type TextCase struct {
	Text string `json:"text_hex"` // hex of UTF-8
}

func guard(kind string, c any, f func()) string {
	return vk.Guarded(kind, kind+"/hang", func() any { return c }, f)
}

// checkRune: every code point through Encode, both transformer encoders and the validators.
func checkRune(c RuneCase) *vk.Violation {
	r := rune(c.R)
	s := string(r) // surrogates and out-of-range become U+FFFD, which is not in the alphabet
	want, ok := ref.GSMRune([]rune(s)[0])
	var v *vk.Violation
	pn := guard("rune", c, func() {
		enc, err := g.Encode(s)
		if ok != (err == nil) || (ok && !bytes.Equal(enc, want)) {
			v = vk.Violf("Encode/alphabet", c, "Encode(U+%04X) = %x, %v; TS 23.038 gives %x (in alphabet: %v)", r, enc, err, want, ok)
			return
		}
		un, _, err := transform.Bytes(g.GSM7(false).NewEncoder(), []byte(s))
		if ok != (err == nil) || (ok && !bytes.Equal(un, want)) {
			v = vk.Violf("UnpackedEncoder/alphabet", c, "unpacked transformer encoder(U+%04X) = %x, %v; want %x (in alphabet: %v)", r, un, err, want, ok)
			return
		}
		pk, _, err := transform.Bytes(g.GSM7(true).NewEncoder(), []byte(s))
		if ok != (err == nil) || (ok && !bytes.Equal(pk, ref.GSMPack(want))) {
			v = vk.Violf("PackedEncoder/alphabet", c, "packed transformer encoder(U+%04X) = %x, %v; want %x (in alphabet: %v)", r, pk, err, ref.GSMPack(want), ok)
			return
		}
		if inv := g.ValidateGSM7String(s); (len(inv) == 0) != ok {
			v = vk.Violf("ValidateGSM7String/agreement", c, "ValidateGSM7String(U+%04X) = %v, in alphabet: %v", r, inv, ok)
			return
		}
		if g.IsValidGSM7String(s) != ok {
			v = vk.Violf("IsValidGSM7String/agreement", c, "IsValidGSM7String(U+%04X) = %v, in alphabet: %v", r, !ok, ok)
			return
		}
		if datacoding.CanEncodeByGSM7(s) != ok {
			v = vk.Violf("CanEncodeByGSM7/agreement", c, "datacoding.CanEncodeByGSM7(U+%04X) = %v, in alphabet: %v", r, !ok, ok)
			return
		}
		if ok {
			dec, err := g.Decode(want)
			if err != nil || string(dec) != s {
				v = vk.Violf("Decode/inverse", c, "Decode(%x) = %q, %v; want U+%04X", want, dec, err, r)
			}
		}
	})
	if pn != "" {
		return vk.Violf("rune/panic", c, "panic on U+%04X\n%s", r, pn)
	}
	return v
}

// checkPair: every (first, second) octet pair through Decode, the unpacked transformer decoder and ValidateGSM7Buffer.
func checkPair(c PairCase) *vk.Violation {
	in := []byte{c.A, c.B}
	want, werr := ref.GSMDecode(in)
	var v *vk.Violation
	pn := guard("pair", c, func() {
		dec, err := g.Decode(in)
		if (werr == nil) != (err == nil) || (werr == nil && string(dec) != want) {
			v = vk.Violf("Decode/pairs", c, "Decode(%x) = %q, %v; reference %q, %v", in, dec, err, want, werr)
			return
		}
		td, _, err := transform.Bytes(g.GSM7(false).NewDecoder(), in)
		if (werr == nil) != (err == nil) || (werr == nil && string(td) != want) {
			v = vk.Violf("UnpackedDecoder/pairs", c, "unpacked transformer decoder(%x) = %q, %v; reference %q, %v", in, td, err, want, werr)
			return
		}
		if inv := g.ValidateGSM7Buffer(in); (len(inv) == 0) != (werr == nil) {
			v = vk.Violf("ValidateGSM7Buffer/agreement", c, "ValidateGSM7Buffer(%x) = %x but reference decode says %v", in, inv, werr)
		}
	})
	if pn != "" {
		return vk.Violf("pair/panic", c, "panic on %x\n%s", in, pn)
	}
	return v
}

// acceptableUnpack: the result equals s, or lacks exactly the last septet when
// the septet count is a multiple of 8 and that septet is CR, or is 0x00 after
// a septet < 0x40 (the two end-of-message ambiguities).
func acceptableUnpack(s, got []byte) bool {
	if bytes.Equal(s, got) {
		return true
	}
	n := len(s)
	if n > 0 && n%8 == 0 && bytes.Equal(got, s[:n-1]) {
		if s[n-1] == 0x0D {
			return true
		}
		if s[n-1] == 0x00 && s[n-2] < 0x40 {
			return true
		}
	}
	return false
}

func checkSeq(c SeqCase) *vk.Violation {
	s := vk.UnHex(c.Septets)
	var v *vk.Violation
	pn := guard("seq", c, func() {
		// the argument is a part cut out of a longer septet buffer (spare capacity behind it, as the splitter's
		// and any caller's sub-slices have): what lies behind the part belongs to the caller and must stay
		arg := make([]byte, len(s)+9)
		copy(arg, s)
		for i := len(s); i < len(arg); i++ {
			arg[i] = 0x5f
		}
		p := g.Pack(arg[:len(s)])
		for i := len(s); i < len(arg); i++ {
			if arg[i] != 0x5f {
				v = vk.Violf("Pack/writes-behind-its-argument", c, "Pack(buf[:%d]) changed buf[%d] from 5f to %02x: it wrote into the caller's buffer behind the septets it was given", len(s), i, arg[i])
				return
			}
		}
		if !bytes.Equal(arg[:len(s)], s) {
			v = vk.Violf("Pack/changes-its-argument", c, "Pack changed the septets it was given: %x -> %x", s, arg[:len(s)])
			return
		}
		vk.Retain("gsm7encoding.Pack", p)
		want := ref.GSMPack(s)
		if !bytes.Equal(p, want) {
			v = vk.Violf("Pack/bit-layout", c, "Pack(%x) = %x, TS 23.038 bit stream gives %x", s, p, want)
			return
		}
		u := g.Unpack(append([]byte{}, p...))
		vk.Retain("gsm7encoding.Unpack", u)
		if !acceptableUnpack(s, u) {
			key := "Unpack/inverse"
			for i := 7; i < len(s)-1; i += 8 {
				if s[i] == 0 && s[i-1] < 0x40 {
					key = "Unpack/zero-septet-at-7-mod-8-dropped-inside-message"
				}
			}
			v = vk.Violf(key, c, "Unpack(Pack(%x)) = %x", s, u)
			return
		}
		// packed transformer decoder == Decode(Unpack(.)) on the same packed octets
		d1, e1 := g.Decode(g.Unpack(append([]byte{}, p...)))
		d2, _, e2 := transform.Bytes(g.GSM7(true).NewDecoder(), append([]byte{}, p...))
		vk.Retain("gsm7encoding.Decode", d1)
		vk.Retain("GSM7(true).NewDecoder", d2)
		if (e1 == nil) != (e2 == nil) || (e1 == nil && !bytes.Equal(d1, d2)) {
			v = vk.Violf("PackedDecoder/agreement", c, "packed transformer decoder(%x) = %q, %v but Decode(Unpack(.)) = %q, %v", p, d2, e2, d1, e1)
		}
	})
	if pn != "" {
		return vk.Violf("seq/panic", c, "panic on septets %x\n%s", s, pn)
	}
	return v
}

// checkText: the transformer pairs agree with the function pairs on a text of the alphabet.
func checkText(c TextCase) *vk.Violation {
	txt := string(vk.UnHex(c.Text))
	var v *vk.Violation
	pn := guard("text", c, func() {
		want, werr := ref.GSMEncode(txt)
		enc, err := g.Encode(txt)
		vk.Retain("gsm7encoding.Encode", enc)
		if (werr == nil) != (err == nil) || (werr == nil && !bytes.Equal(enc, want)) {
			v = vk.Violf("Encode/text", c, "Encode(%q) = %x, %v; reference %x, %v", txt, enc, err, want, werr)
			return
		}
		un, _, e2 := transform.Bytes(g.GSM7(false).NewEncoder(), []byte(txt))
		if (werr == nil) != (e2 == nil) || (werr == nil && !bytes.Equal(un, want)) {
			v = vk.Violf("UnpackedEncoder/agreement", c, "unpacked transformer encoder(%q) = %x, %v; Encode gives %x", txt, un, e2, want)
			return
		}
		pk, _, e3 := transform.Bytes(g.GSM7(true).NewEncoder(), []byte(txt))
		if (werr == nil) != (e3 == nil) || (werr == nil && !bytes.Equal(pk, ref.GSMPack(want))) {
			v = vk.Violf("PackedEncoder/agreement", c, "packed transformer encoder(%q) = %x, %v; Pack(Encode(.)) = %x", txt, pk, e3, ref.GSMPack(want))
			return
		}
		if (len(g.ValidateGSM7String(txt)) == 0) != (werr == nil) || g.IsValidGSM7String(txt) != (werr == nil) || datacoding.CanEncodeByGSM7(txt) != (werr == nil) {
			v = vk.Violf("validators/agreement", c, "validators disagree with Encode on %q", txt)
			return
		}
		if werr == nil {
			d, e := g.Decode(want)
			vk.Retain("gsm7encoding.Decode", d)
			if e != nil || string(d) != txt {
				v = vk.Violf("Decode/text", c, "Decode(Encode(%q)) = %q, %v", txt, d, e)
				return
			}
			td, _, e := transform.Bytes(g.GSM7(false).NewDecoder(), want)
			if len(want) > 0 && (e != nil || string(td) != txt) {
				v = vk.Violf("UnpackedDecoder/agreement", c, "unpacked transformer decoder(Encode(%q)) = %q, %v", txt, td, e)
			}
		}
	})
	if pn != "" {
		return vk.Violf("text/panic", c, "panic on %q\n%s", txt, pn)
	}
	return v
}

var reg = vk.Registry{
	"rune": func(raw json.RawMessage) *vk.Violation {
		var c RuneCase
		_ = json.Unmarshal(raw, &c)
		return checkRune(c)
	},
	"pair": func(raw json.RawMessage) *vk.Violation {
		var c PairCase
		_ = json.Unmarshal(raw, &c)
		return checkPair(c)
	},
	"seq": func(raw json.RawMessage) *vk.Violation {
		var c SeqCase
		_ = json.Unmarshal(raw, &c)
		return checkSeq(c)
	},
	"text": func(raw json.RawMessage) *vk.Violation {
		var c TextCase
		_ = json.Unmarshal(raw, &c)
		return checkText(c)
	},
}

func init() { reg["sequence"] = vk.SequenceReplayer(reg) }

func TestReplay(t *testing.T) { vk.RunReplay(t, reg) }

func TestAlphabetExhaustive(t *testing.T) {
	rec.RunProbes(t, reg)
	rec.RunRegress(t, reg)
	env := rec.Env()
	lo, hi := env.Range(0x110000)
	for r := lo; r < hi; r++ {
		rec.Report(t, "rune", checkRune(RuneCase{int32(r)}))
	}
	rec.EvalN(int64(hi - lo))
	rec.NonTrivialConstructed(int64(hi - lo))
	rec.Exhaustive("all 1,114,112 code points through Encode, both transformer encoders and the validators")
	rec.Sample("rune", RuneCase{0x20AC})
	plo, phi := env.Range(65536)
	for i := plo; i < phi; i++ {
		rec.Report(t, "pair", checkPair(PairCase{byte(i >> 8), byte(i)}))
	}
	rec.EvalN(int64(phi - plo))
	rec.NonTrivialConstructed(int64(phi - plo))
	rec.Exhaustive("all 256x256 (first, second) octet pairs through Decode, the unpacked transformer decoder and ValidateGSM7Buffer")
	rec.Sample("pair", PairCase{0x1b, 0x65})
}

var branchAlphabet = []byte{0x00, 0x01, 0x0d, 0x1b, 0x3f, 0x40, 0x7f}

func evalSeq(t vk.TB, s []byte, constructed bool) {
	rec.Eval()
	if len(s) >= 8 {
		if constructed {
			rec.NonTrivialConstructed(1)
		} else {
			rec.NonTrivial("seq", s)
		}
		for i := 7; i < len(s)-1; i += 8 {
			if s[i] == 0 && s[i-1] < 0x40 {
				rec.Class("zero_septet_at_7mod8_after_lt_0x40_not_last")
				break
			}
		}
	}
	if n := len(s); n > 0 && n%8 == 0 && (s[n-1] == 0x0d || (s[n-1] == 0 && s[n-2] < 0x40)) {
		rec.Class("end_of_message_ambiguity_carve_out")
	}
	sc := SeqCase{vk.Hex(s)}
	if constructed {
		rec.Report(t, "seq", checkSeq(sc))
	} else {
		rec.ReportSeq(t, "seq", sc, func() *vk.Violation { return checkSeq(sc) })
	}
}

func TestPackingEnumerations(t *testing.T) {
	env := rec.Env()
	vk.RetainEnabled = false
	defer func() { vk.RetainEnabled = true }()
	idx := 0
	mine := func() bool { idx++; return env.Mine(idx) }
	// all sequences of length 0..2 (quick) / 0..3 (thorough) over all 128 septet values
	maxFull := env.Pick(2, 3)
	var rec3 func(prefix []byte, l int)
	rec3 = func(prefix []byte, l int) {
		if len(prefix) == l {
			if mine() {
				evalSeq(t, prefix, true)
			}
			return
		}
		for v := 0; v < 128; v++ {
			rec3(append(prefix, byte(v)), l)
		}
	}
	for l := 0; l <= maxFull; l++ {
		rec3(nil, l)
	}
	rec.Exhaustive("all septet sequences of length 0.." + string(rune('0'+maxFull)) + " over 0..127")
	// all sequences up to length 6 (quick) / 8 (thorough) over the branch-driving alphabet
	maxB := env.Pick(6, 8)
	var recb func(prefix []byte, l int)
	recb = func(prefix []byte, l int) {
		if len(prefix) == l {
			if mine() {
				evalSeq(t, prefix, true)
			}
			return
		}
		for _, v := range branchAlphabet {
			recb(append(prefix, v), l)
		}
	}
	for l := 0; l <= maxB; l++ {
		recb(nil, l)
	}
	rec.Exhaustive("all sequences up to length " + string(rune('0'+maxB)) + " over {00,01,0d,1b,3f,40,7f}")
	// every length 1..40: every assignment of the alphabet to the three septets around every block boundary
	for l := 1; l <= 40; l++ {
		for p := 8; p-2 < l; p += 8 {
			for a := 0; a < 343; a++ {
				if !mine() {
					continue
				}
				sm := vk.SplitMix(uint64(l*100000 + p*1000 + a))
				s := make([]byte, l)
				for i := range s {
					s[i] = byte(sm.Intn(128))
				}
				tri := []byte{branchAlphabet[a%7], branchAlphabet[a/7%7], branchAlphabet[a/49]}
				for k, off := range []int{p - 2, p - 1, p} {
					if off >= 0 && off < l {
						s[off] = tri[k]
					}
				}
				evalSeq(t, s, true)
			}
		}
	}
	rec.Exhaustive("lengths 1..40: every assignment from the branch alphabet to the septets 8k-2, 8k-1, 8k around every block boundary")
	// one-hot wiring check: a single 1 bit, every bit of every length 0..64
	for l := 0; l <= 64; l++ {
		for bit := 0; bit < 7*l; bit++ {
			if !mine() {
				continue
			}
			s := make([]byte, l)
			s[bit/7] = 1 << uint(bit%7)
			evalSeq(t, s, true)
		}
	}
	rec.Exhaustive("single-bit wiring: every bit of every length 0..64")
	if env.Shard == 0 {
		var u []byte
		if pn := guard("seq", SeqCase{""}, func() { u = g.Unpack(nil) }); pn != "" {
			rec.Report(t, "seq", vk.Violf("Unpack/empty-panics", SeqCase{""}, "Unpack(nil) panicked\n%s", pn))
		} else if len(u) != 0 {
			rec.Report(t, "seq", vk.Violf("Unpack/empty", SeqCase{""}, "Unpack(nil) = %x", u))
		}
	}
}

func TestPackingRandom(t *testing.T) {
	rapid.Check(t, func(t *rapid.T) {
		n := rapid.OneOf(rapid.IntRange(0, 64), rapid.IntRange(0, 2000), rapid.SampledFrom([]int{7, 8, 9, 15, 16, 17, 152, 153, 154, 159, 160, 161})).Draw(t, "n")
		var s []byte
		if n <= 64 {
			s = rapid.SliceOfN(rapid.OneOf(rapid.ByteRange(0, 127), rapid.SampledFrom(branchAlphabet)), n, n).Draw(t, "septets")
		} else {
			sm := vk.SplitMix(rapid.Uint64().Draw(t, "seed"))
			s = make([]byte, n)
			for i := range s {
				if sm.Intn(4) == 0 {
					s[i] = branchAlphabet[sm.Intn(7)]
				} else {
					s[i] = byte(sm.Intn(128))
				}
			}
		}
		rec.Sample("seq", SeqCase{vk.Hex(s)})
		evalSeq(t, s, false)
	})
}

var alphabetRunes = func() []rune {
	var out []rune
	for r := rune(0); r < 0x2100; r++ {
		if _, ok := ref.GSMRune(r); ok {
			out = append(out, r)
		}
	}
	return out
}()

func TestTextsRandom(t *testing.T) {
	rapid.Check(t, func(t *rapid.T) {
		n := rapid.IntRange(0, 200).Draw(t, "n")
		rs := rapid.SliceOfN(rapid.OneOf(rapid.SampledFrom(alphabetRunes), rapid.SampledFrom([]rune{'[', ']', '{', '}', '€', '@', '\r', 0x1b, 'ç', 'Ā', 0x10000, 0x0301, 0x0308, 0x2126, 0x212A, 0x037E})), n, n).Draw(t, "runes")
		if rapid.IntRange(0, 5).Draw(t, "decomposed") == 0 {
			// decomposed accents right after their base letter: the sequence is NOT in the alphabet although its composition is
			pairs := []string{"e\u0301", "a\u0300", "u\u0308", "n\u0303", "A\u030a", "C\u0327", "E\u0301", "o\u0308"}
			at := rapid.IntRange(0, len(rs)).Draw(t, "at")
			rs = append(rs[:at:at], append([]rune(pairs[rapid.IntRange(0, len(pairs)-1).Draw(t, "pair")]), rs[at:]...)...)
			n = len(rs)
			rec.Class("texts_with_decomposed_accent")
			txt := string(rs)
			rec.Eval()
			tc := TextCase{vk.Hex([]byte(txt))}
			rec.ReportSeq(t, "text", tc, func() *vk.Violation { return checkText(tc) })
			return
		}
		if rapid.IntRange(0, 19).Draw(t, "longtext") == 0 {
			// a long message (up to the 255 x 153 septets the library carries) in which an extension character
			// straddles a power-of-two offset of the septet stream: ESC is septet B-1, its code septet B
			B := rapid.SampledFrom([]int{256, 512, 1024, 2048, 4096, 8192, 16384, 32768}).Draw(t, "block")
			total := B + rapid.SampledFrom([]int{1, 2, 9, 100, 4096}).Draw(t, "after")
			if total > 39000 {
				total = 39000
			}
			shift := rapid.SampledFrom([]int{-1, -1, -1, 0, -2}).Draw(t, "shift") // ESC at B+shift
			ext := rapid.SampledFrom([]rune("[]{}^~|\\€\f")).Draw(t, "ext")
			fill := rapid.SampledFrom([]rune("a1 è@")).Draw(t, "fill")
			rs = rs[:0]
			for i := 0; i < B+shift; i++ {
				rs = append(rs, fill)
			}
			rs = append(rs, ext)
			for i := B + shift + 2; i < total; i++ {
				rs = append(rs, fill)
			}
			n = len(rs)
			rec.Class("long_text_with_extension_character_across_power_of_two_offset")
		}
		if rapid.IntRange(0, 3).Draw(t, "invalid") != 0 { // mostly keep texts inside the alphabet
			for i, r := range rs {
				if _, ok := ref.GSMRune(r); !ok {
					rs[i] = 'a'
				}
			}
		}
		txt := string(rs)
		if !utf8.ValidString(txt) {
			t.Skip()
		}
		rec.Eval()
		if n >= 8 {
			rec.NonTrivial("text", txt)
		}
		rec.Class("texts")
		rec.Sample("text", map[string]string{"text": txt})
		tc := TextCase{vk.Hex([]byte(txt))}
		rec.ReportSeq(t, "text", tc, func() *vk.Violation { return checkText(tc) })
	})
}

// StreamCase: one long-lived stream transformer given whole messages directly through Transform, first with
// a destination that is too small (the call is repeated with a larger one), optionally after a call on
// ANOTHER message of the same length in the same source buffer that was abandoned when it reported a short
// destination, followed by Reset. The output must be what the function pair gives.
type StreamCase struct {
	Packed  bool   `json:"packed"`
	Dir     string `json:"dir"`      // "enc" (text -> septets/octets) | "dec"
	Text    string `json:"text_hex"` // the message (valid GSM 7-bit text)
	Other   string `json:"other_hex,omitempty"`
	DstSize int    `json:"dst_size"`
}

// drive hands the WHOLE message to Transform in one call (atEOF), the way encoding.Encoder.Bytes /
// transform.Bytes use these transformers, starting with a small destination and starting over with a larger
// one while the transformer reports a short destination. (The transformers are whole-message converters:
// they do not implement x/text's incremental contract - nSrc is not maintained - and the property does not
// ask for it; only their output for a complete message is compared.)
func drive(tr transform.Transformer, src []byte, dstSize int) ([]byte, error) {
	if dstSize < 1 {
		dstSize = 1
	}
	for iter := 0; iter < 64; iter++ {
		dst := make([]byte, dstSize)
		for i := range dst {
			dst[i] = 0xA7 // a destination that was used before: nothing promises a transformer zeroed memory
		}
		nDst, _, err := tr.Transform(dst, src, true)
		if nDst < 0 || nDst > len(dst) {
			return nil, fmt.Errorf("Transform returned nDst=%d for a %d-octet destination", nDst, len(dst))
		}
		switch err {
		case nil:
			return dst[:nDst], nil
		case transform.ErrShortDst:
			dstSize *= 2
			tr.Reset() // start over from the initial state (a transformer may legitimately keep state between calls)
		default:
			return nil, err
		}
	}
	return nil, fmt.Errorf("still 'short destination' with %d octets", dstSize)
}

func checkStream(c StreamCase) *vk.Violation {
	txt := string(vk.UnHex(c.Text))
	other := string(vk.UnHex(c.Other))
	var v *vk.Violation
	pn := guard("stream", c, func() {
		sep, err := ref.GSMEncode(txt)
		if err != nil {
			return
		}
		in, want := []byte(txt), sep
		if c.Packed {
			want = ref.GSMPack(sep)
		}
		var tr transform.Transformer = g.GSM7(c.Packed).NewEncoder()
		if c.Dir == "dec" {
			in, want = want, []byte(txt)
			if c.Packed {
				// what the packed form decodes to (end-of-message ambiguities included): the function pair
				d, e := g.Decode(g.Unpack(append([]byte{}, in...)))
				if e != nil {
					return
				}
				want = d
			}
			tr = g.GSM7(c.Packed).NewDecoder()
		}
		name := map[bool]string{false: "unpacked", true: "packed"}[c.Packed] + "-" + c.Dir
		buf := make([]byte, len(in))
		if c.Other != "" {
			// another message of the same length in the same buffer; its call is abandoned at the first short destination
			osep, oerr := ref.GSMEncode(other)
			if oerr == nil {
				o := []byte(other)
				if c.Dir == "dec" {
					o = osep
					if c.Packed {
						o = ref.GSMPack(osep)
					}
				}
				if len(o) == len(in) && len(o) > 0 {
					copy(buf, o)
					_, _, _ = tr.Transform(make([]byte, 1), buf, true)
					tr.Reset()
				}
			}
		}
		copy(buf, in)
		got, err := drive(tr, buf, c.DstSize)
		if err != nil || !bytes.Equal(got, want) {
			v = vk.Violf("stream/"+name, c, "%s transformer driven with a %d-octet destination: got %x, %v; the function pair gives %x", name, c.DstSize, clipb(got), err, clipb(want))
		}
	})
	if pn != "" {
		return vk.Violf("stream/panic", c, "panic\n%s", pn)
	}
	return v
}

func clipb(b []byte) []byte {
	if len(b) > 48 {
		return b[:48]
	}
	return b
}

func init() {
	reg["stream"] = func(raw json.RawMessage) *vk.Violation {
		var c StreamCase
		_ = json.Unmarshal(raw, &c)
		return checkStream(c)
	}
}

var gsmPool = []rune("abcXYZ019 @£$ΔΩèéà\r\n[]{}^~|\\€")

func TestStreams(t *testing.T) {
	rapid.Check(t, func(t *rapid.T) {
		n := rapid.OneOf(rapid.IntRange(0, 40), rapid.IntRange(0, 400)).Draw(t, "n")
		mk := func(label string) string {
			rs := rapid.SliceOfN(rapid.SampledFrom(gsmPool), n, n).Draw(t, label)
			return string(rs)
		}
		c := StreamCase{Packed: rapid.Bool().Draw(t, "packed"), Dir: rapid.SampledFrom([]string{"enc", "dec"}).Draw(t, "dir"),
			Text: vk.Hex([]byte(mk("text"))), DstSize: rapid.SampledFrom([]int{1, 2, 3, 7, 8, 16, 64, 4096}).Draw(t, "dst")}
		if rapid.Bool().Draw(t, "abandoned") {
			// same number of characters of the same classes: very often the same encoded length
			a := []rune(string(vk.UnHex(c.Text)))
			b := make([]rune, len(a))
			for i, r := range a {
				sep, _ := ref.GSMRune(r)
				for tries := 0; ; tries++ {
					x := gsmPool[rapid.IntRange(0, len(gsmPool)-1).Draw(t, "o")]
					xs, _ := ref.GSMRune(x)
					if (len(xs) == len(sep) && len(string(x)) == len(string(r))) || tries > 40 {
						b[i] = x
						if tries > 40 {
							b[i] = r
						}
						break
					}
				}
			}
			c.Other = vk.Hex([]byte(string(b)))
			rec.Class("stream_after_abandoned_call_on_same_buffer")
		}
		rec.Eval()
		if n >= 8 {
			rec.NonTrivial("stream", c.Packed, c.Dir, c.Text, c.Other, c.DstSize)
		}
		rec.Class("stream_transformer_direct")
		rec.ReportSeq(t, "stream", c, func() *vk.Violation { return checkStream(c) })
	})
}
