#!/usr/bin/env python3
"""seedpar.py <glob of seeded dirs> [--tier quick] [--jobs 4]: isolated parallel evaluation (tools/seediso.py) of many seeded changes."""
import glob, json, os, subprocess, sys
from concurrent.futures import ThreadPoolExecutor
a = sys.argv[1:]
dirs = sorted(d for d in glob.glob(a[0]) if os.path.isdir(d))
tier = a[a.index("--tier") + 1] if "--tier" in a else "quick"
jobs = int(a[a.index("--jobs") + 1]) if "--jobs" in a else 4
extra = {"C06-1": ["C14"], "C06-2": ["C09"], "C06-R2-1": ["C14"], "C13-R2-1": ["C09"], "C17-R3-2": ["C13"],
         "C17-R4-2": ["C13"], "C02-R4-1": ["C01", "C12"], "C05-R4-2": ["C08"], "C06-R4-1": ["C14"], "C06-R4-2": ["C05", "C08"], "C13-R4-1": ["C12"], "C09-R4-2": ["C07"], "C12-R4-2": ["C05"], "C18-R4-2": ["C01"],
         "C06-R5-2": ["C05", "C08"], "C05-R5-1": ["C08"], "C15-R5-2": ["C12", "C01"], "C13-R5-1": ["C09"], "C14-R5-1": ["C06", "C07"], "C14-R5-2": ["C06", "C07"], "C12-R5-2": ["C01", "C16"], "C06-R5-1": ["C07", "C14"], "C11-R5-1": ["C01", "C15"], "C01-R5-1": ["C15"],
         "C05-R6-1": ["C06", "C12"], "C05-R6-2": ["C12"], "C06-R6-1": ["C12"], "C07-R6-1": ["C12"], "C06-R6-2": ["C09"], "C09-R6-1": ["C12"], "C16-R6-1": ["C12"], "C16-R6-2": ["C12"], "C08-R6-1": ["C12"], "C20-R6-2": ["C12", "C13"], "C10-R6-1": ["C13"], "C15-R6-1": ["C01"], "C18-R6-1": ["C12"], "C03-R6-1": ["C12"], "C13-R6-2": ["C10"]}
import queue
slots = queue.Queue()
for i in range(jobs):
    slots.put(i)
def run(d):
    name = os.path.basename(d.rstrip("/"))
    meta = json.load(open(os.path.join(d, "meta.json")))
    checks = [meta["property"]] + extra.get(name, [])
    s = slots.get()
    try:
        p = subprocess.run(["/verif/tools/seediso.py", d, "--slot", str(s), "--tier", tier, "--checks", ",".join(checks)], stdout=subprocess.PIPE, text=True)
    finally:
        slots.put(s)
    try:
        r = json.loads(p.stdout)
    except Exception:
        r = {"error": p.stdout[-300:], "detected_by": [], "checks": {}}
    return name, r
with ThreadPoolExecutor(jobs) as ex:
    res = list(ex.map(run, dirs))
missed = []
for name, r in res:
    print(name, r.get("detected_by"), r.get("error", ""), {c: x["other"] for c, x in r.get("checks", {}).items() if x.get("other")})
    if not r.get("detected_by"):
        missed.append(name)
json.dump(dict(res), open(os.environ.get("SEEDPAR_OUT", "/tmp/seedpar_last.json"), "w"), indent=1)
print("detected %d / %d; missed: %s" % (len(res) - len(missed), len(res), missed))
