#!/usr/bin/env python3
"""Evaluates one seeded change (directory with patch.diff, demo_test.go, meta.json):
  1. in a scratch worktree of /repo: demo passes on the clean tree; with the patch the tree compiles,
     the 297-test baseline passes and the demo fails;
  2. applies the patch to /repo, runs the given checks (default: the property's own), undoes the patch.
usage: seedeval.py <dir> [--checks C01,C02] [--tier quick] [--skip-verify]
prints a JSON summary."""
import json, os, re, shutil, subprocess, sys, time
ENV = dict(os.environ, GOFLAGS="-mod=mod", GOPROXY="off", GOSUMDB="off", GOTOOLCHAIN="local")

def sh(cmd, cwd=None, timeout=1800):
    p = subprocess.run(cmd, cwd=cwd, env=ENV, shell=isinstance(cmd, str), stdout=subprocess.PIPE, stderr=subprocess.STDOUT, text=True, errors="replace", timeout=timeout)
    return p.returncode, p.stdout

def main():
    d = os.path.abspath(sys.argv[1])
    a = sys.argv[2:]
    meta = json.load(open(os.path.join(d, "meta.json")))
    prop = meta["property"]
    checks = [prop]
    if "--checks" in a:
        checks = a[a.index("--checks") + 1].split(",")
    tier = a[a.index("--tier") + 1] if "--tier" in a else "quick"
    patch = os.path.join(d, "patch.diff")
    demo = os.path.join(d, "demo_test.go")
    res = {"dir": d, "property": prop, "summary": meta.get("summary", "")}
    if "--skip-verify" not in a:
        wt = "/tmp/seedeval_wt%d" % os.getpid()
        sh(["git", "-C", "/repo", "worktree", "remove", "--force", wt])
        shutil.rmtree(wt, ignore_errors=True)
        rc, out = sh(["git", "-C", "/repo", "worktree", "add", "-q", "--detach", wt, "HEAD"])
        try:
            first = open(demo).readline()
            m = re.match(r"//\s*place in:\s*(\S+)", first)
            place = m.group(1).strip("/") if m else "."
            if place in (".", "./", "<root>", "root"):
                place = "."
            dst = os.path.join(wt, place, "zz_seeded_demo_test.go")
            shutil.copy(demo, dst)
            tname = re.search(r"func (Test\w+)\(", open(demo).read()).group(1)
            race = ["-race"] if "-race" in open(demo).read()[:600] else []
            def run_demo():
                return sh(["go", "test", "-ldflags=-checklinkname=0", "-vet=off", "-count=1"] + race + ["-run", "^" + tname + "$", "./" + place], cwd=wt, timeout=900)
            rc, out = run_demo()
            res["demo_passes_clean"] = rc == 0
            if rc != 0:
                res["demo_clean_output"] = out[-1500:]
            rc, out = sh(["git", "apply", patch], cwd=wt)
            res["patch_applies"] = rc == 0
            if rc == 0:
                rc, out = sh("go build ./... && go vet -tags verif ./packet ./cmpp >/dev/null 2>&1; true", cwd=wt)
                rc, out = sh(["go", "build", "./..."], cwd=wt)
                res["compiles"] = rc == 0
                os.remove(dst)
                rc, out = sh(["/verif/tools/baseline.py", wt])
                res["baseline_passes"] = rc == 0
                if rc != 0:
                    res["baseline_output"] = out[-1500:]
                shutil.copy(demo, dst)
                rc, out = run_demo()
                res["demo_fails_patched"] = rc != 0
        finally:
            sh(["git", "-C", "/repo", "worktree", "remove", "--force", wt])
            shutil.rmtree(wt, ignore_errors=True)
    if "--verify-only" in a:
        print(json.dumps(res, indent=1, ensure_ascii=False)); return 0
    # run the checks against /repo with the patch applied
    rc, out = sh(["git", "-C", "/repo", "status", "--porcelain"])
    if out.strip():
        res["error"] = "/repo is not clean"
        print(json.dumps(res, indent=1)); return 2
    rc, out = sh(["git", "-C", "/repo", "apply", patch])
    if rc != 0:
        res["error"] = "patch does not apply to /repo: " + out[-300:]
        print(json.dumps(res, indent=1)); return 2
    res["checks"] = {}
    try:
        for c in checks:
            t0 = time.time()
            rc, out = sh(["./check", c, "--tier", tier], cwd="/verif", timeout=7200)
            viol = [l for l in out.splitlines() if l.startswith("VIOLATION")]
            res["checks"][c] = {"exit": rc, "violations": viol[:6], "wall_s": round(time.time() - t0, 1),
                                "other": [l for l in out.splitlines() if l.startswith(("INCONCLUSIVE", "BUILD-FAILED"))][:4]}
    finally:
        sh(["git", "-C", "/repo", "checkout", "--", "."])
        sh(["git", "-C", "/repo", "clean", "-fdq"])
    res["detected_by"] = [c for c, r in res["checks"].items() if r["exit"] == 1]
    print(json.dumps(res, indent=1, ensure_ascii=False))
    return 0

if __name__ == "__main__":
    sys.exit(main())
