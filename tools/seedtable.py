#!/usr/bin/env python3
"""Prints the markdown table 'which check catches which seeded change' from /verif/seeded/*/meta.json."""
import json, glob, os
print("| change | what it does (needs to manifest) | first evaluation | after strengthening |")
print("|---|---|---|---|")
for d in sorted(glob.glob("/verif/seeded/C*/")):
    m = json.load(open(d + "meta.json"))
    res = m.get("results", [])
    def fmt(r):
        if not r:
            return "-"
        return ", ".join(r["detected_by"]) if r["detected_by"] else "**missed**"
    first = res[0] if res else None
    last = res[-1] if len(res) > 1 else None
    s = m["summary"].replace("|", "/").replace("\n", " ")
    n = m.get("needs_to_manifest", "").replace("|", "/").replace("\n", " ")
    print("| %s | %s (%s) | %s | %s |" % (m["id"], s[:230], n[:170], fmt(first), fmt(last) if last else "(unchanged)"))
