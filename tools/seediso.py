#!/usr/bin/env python3
"""Evaluates a seeded change WITHOUT touching /repo: a copy of /verif whose harness module replaces the
library with a scratch worktree of /repo HEAD that has the patch applied. Several slots can run in parallel.
usage: seediso.py <seeded-dir> --slot N [--checks C01,C02] [--tier quick]    prints JSON"""
import json, os, shutil, subprocess, sys
ENV = dict(os.environ, GOFLAGS="-mod=mod", GOPROXY="off", GOSUMDB="off", GOTOOLCHAIN="local", GOCACHE="/verif/.cache/go-build")
def sh(cmd, cwd=None, timeout=3600):
    p = subprocess.run(cmd, cwd=cwd, env=ENV, stdout=subprocess.PIPE, stderr=subprocess.STDOUT, text=True, errors="replace", timeout=timeout)
    return p.returncode, p.stdout
d = os.path.abspath(sys.argv[1]); a = sys.argv[2:]
slot = a[a.index("--slot") + 1]
meta = json.load(open(os.path.join(d, "meta.json")))
checks = a[a.index("--checks") + 1].split(",") if "--checks" in a else [meta["property"]]
tier = a[a.index("--tier") + 1] if "--tier" in a else "quick"
ve, er = "/tmp/ve%s" % slot, "/tmp/er%s" % slot
sh(["git", "-C", "/repo", "worktree", "remove", "--force", er]); shutil.rmtree(er, ignore_errors=True); shutil.rmtree(ve, ignore_errors=True)
sh(["rsync", "-a", "--exclude", ".cache", "--exclude", ".run", "--exclude", ".bin", "--exclude", ".git", "--exclude", "seeded", "--exclude", "spec_extract", os.environ.get("SEEDISO_SRC", "/verif").rstrip("/") + "/", ve + "/"])
sh(["git", "-C", "/repo", "worktree", "add", "-q", "--detach", er, "HEAD"])
res = {"dir": d, "property": meta.get("property", ""), "checks": {}}
rc, out = sh(["git", "apply", os.path.join(d, "patch.diff")], cwd=er)
if rc != 0:
    res["error"] = "patch does not apply: " + out[-200:]
else:
    gm = os.path.join(ve, "harness", "go.mod")
    s = open(gm).read().replace("=> /repo", "=> " + er); open(gm, "w").write(s)
    for c in checks:
        rc, out = sh([os.path.join(ve, "check"), c, "--tier", tier], cwd=ve)
        res["checks"][c] = {"exit": rc, "violations": [l.replace(ve, "/verif") for l in out.splitlines() if l.startswith("VIOLATION")][:4],
                            "other": [l for l in out.splitlines() if l.startswith(("INCONCLUSIVE", "BUILD-FAILED"))][:3]}
res["detected_by"] = [c for c, r in res["checks"].items() if r["exit"] == 1]
sh(["git", "-C", "/repo", "worktree", "remove", "--force", er]); shutil.rmtree(er, ignore_errors=True); shutil.rmtree(ve, ignore_errors=True)
print(json.dumps(res, ensure_ascii=False))
