#!/usr/bin/env python3
"""benigneval.py <glob of dirs with patch.diff+meta.json> [--jobs 2]: runs ALL twenty quick checks against each
behaviour-preserving change (isolated copies, tools/seediso.py). Any VIOLATION is a candidate false alarm."""
import glob, json, os, subprocess, sys, queue
from concurrent.futures import ThreadPoolExecutor
a = sys.argv[1:]
dirs = sorted(d for d in glob.glob(a[0]) if os.path.isfile(os.path.join(d, "patch.diff")))
jobs = int(a[a.index("--jobs") + 1]) if "--jobs" in a else 2
allc = ",".join("C%02d" % i for i in range(1, 21))
slots = queue.Queue()
for i in range(jobs):
    slots.put(20 + i)
def run(d):
    s = slots.get()
    try:
        p = subprocess.run(["/verif/tools/seediso.py", d, "--slot", str(s), "--checks", allc], stdout=subprocess.PIPE, text=True, errors="replace")
    finally:
        slots.put(s)
    try:
        r = json.loads(p.stdout)
    except Exception:
        r = {"error": p.stdout[-400:], "checks": {}}
    return d, r
out = {}
with ThreadPoolExecutor(jobs) as ex:
    for d, r in ex.map(run, dirs):
        al = {c: x["violations"][:2] for c, x in r.get("checks", {}).items() if x["exit"] == 1}
        inc = {c: x["other"] for c, x in r.get("checks", {}).items() if x["exit"] not in (0, 1)}
        print(d, "ALARMS" if al else "quiet", al, inc, r.get("error", ""), flush=True)
        out[d] = r
json.dump(out, open(os.environ.get("BENIGN_OUT", "/tmp/benign_last.json"), "w"), indent=1)
