#!/usr/bin/env python3
"""Runs the repository's pinned suite (guard off) on a tree and compares with BASELINE.json's stable_pass list.
usage: baseline.py [repo_dir]   exit 0 iff every one of the 297 stable tests passes."""
import json, os, subprocess, sys
repo = sys.argv[1] if len(sys.argv) > 1 else "/repo"
env = dict(os.environ, GOFLAGS="-mod=mod", GOPROXY="off", GOSUMDB="off", GOTOOLCHAIN="local")
p = subprocess.run(["go", "test", "-json", "-vet=off", "-count=1", "-timeout", "25m", "./..."], cwd=repo, env=env,
                   stdout=subprocess.PIPE, stderr=subprocess.STDOUT, text=True)
passed, failed = set(), set()
for line in p.stdout.splitlines():
    try:
        e = json.loads(line)
    except Exception:
        continue
    t = e.get("Test")
    if not t:
        continue
    name = e["Package"] + "::" + t
    if e.get("Action") == "pass":
        passed.add(name)
    elif e.get("Action") == "fail":
        failed.add(name)
want = set(json.load(open("/root/.vp/BASELINE.json"))["stable_pass"])
missing = sorted(want - passed)
print("stable tests passing: %d / %d; failing tests overall: %d" % (len(want & passed), len(want), len(failed)))
for m in missing[:40]:
    print("  NOT PASSING:", m)
for f in sorted(failed)[:40]:
    print("  FAILED:", f)
sys.exit(0 if not missing else 1)
