#!/usr/bin/env python3
"""seedrecord.py <seedpar json> <stage label>: appends the isolated-evaluation results to the meta.json of each seeded change."""
import json, sys
res = json.load(open(sys.argv[1])); label = sys.argv[2]
for name, r in res.items():
    p = "/verif/seeded/%s/meta.json" % name
    meta = json.load(open(p))
    meta.setdefault("results", [])
    meta["results"] = [x for x in meta["results"] if x.get("stage") != label]
    meta["results"].append({"stage": label, "tier": "quick", "checks": r.get("checks"), "detected_by": r.get("detected_by")})
    json.dump(meta, open(p, "w"), indent=1, ensure_ascii=False)
print("recorded", len(res))
