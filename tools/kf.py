#!/usr/bin/env python3
"""Maintains /verif/known_findings.json.
  kf.py open  <PROP> <KEY> <WHAT> [replay-file]     list an open finding (probe = the replay's kind+case)
  kf.py fixed <PROP> <COMMIT> <KEY> <WHAT>          record a repaired defect (suppresses nothing)
  kf.py close <PROP> <KEY> <COMMIT>                 turn an open finding into a fixed one
"""
import json, sys, os
P = "/verif/known_findings.json"
d = json.load(open(P)) if os.path.exists(P) else {"findings": []}
a = sys.argv[1:]
if a[0] == "open":
    prop, key, what = a[1], a[2], a[3]
    e = {"property": prop, "status": "open", "key": key, "what": what}
    if len(a) > 4:
        r = json.load(open(a[4]))
        e["probe"] = {"kind": r["kind"], "case": r["case"]}
    d["findings"] = [f for f in d["findings"] if not (f["property"] == prop and f["key"] == key and f["status"] == "open")]
    d["findings"].append(e)
elif a[0] == "fixed":
    prop, commit, key, what = a[1], a[2], a[3], a[4]
    d["findings"].append({"property": prop, "status": "fixed", "key": key, "commit": commit, "what": what,
                          "line": "fixed: property=%s %s %s" % (prop, commit, what)})
elif a[0] == "close":
    prop, key, commit = a[1], a[2], a[3]
    for f in d["findings"]:
        if f["property"] == prop and f["key"] == key and f["status"] == "open":
            f["status"] = "fixed"; f["commit"] = commit; f.pop("probe", None)
            f["line"] = "fixed: property=%s %s %s" % (prop, commit, f["what"])
json.dump(d, open(P, "w"), indent=1, ensure_ascii=False)
print(len(d["findings"]), "entries")
