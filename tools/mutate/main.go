// mutate: generates single-site syntactic mutants of a Go source file.
//   mutate -list FILE            prints the number of mutation sites
//   mutate -n K FILE             prints the file with the K-th site mutated (0-based) and, on stderr, a one-line description
// Operators: relational (< <= > >= == !=), logical (&& ||), arithmetic (+ - on integer operands, << >>, & |),
// integer literals (+1 / -1 / 0), negation removal, statement deletion (assignments, expression statements,
// inc/dec), `if cond` -> `if true/false`, slice bounds low/high +-1 via literal mutation.
package main

import (
	"flag"
	"fmt"
	"go/ast"
	"go/parser"
	"go/printer"
	"go/token"
	"os"
	"strconv"
)

type site struct {
	desc  string
	apply func()
}

func main() {
	list := flag.Bool("list", false, "count sites")
	n := flag.Int("n", -1, "site to mutate")
	flag.Parse()
	file := flag.Arg(0)
	fs := token.NewFileSet()
	f, err := parser.ParseFile(fs, file, nil, parser.ParseComments)
	if err != nil {
		fmt.Fprintln(os.Stderr, err)
		os.Exit(2)
	}
	var sites []site
	add := func(pos token.Pos, d string, fn func()) {
		sites = append(sites, site{fmt.Sprintf("%s:%d %s", file, fs.Position(pos).Line, d), fn})
	}
	rel := map[token.Token][]token.Token{
		token.LSS: {token.LEQ, token.GEQ}, token.LEQ: {token.LSS, token.GTR}, token.GTR: {token.GEQ, token.LEQ}, token.GEQ: {token.GTR, token.LSS},
		token.EQL: {token.NEQ}, token.NEQ: {token.EQL}, token.LAND: {token.LOR}, token.LOR: {token.LAND},
		token.ADD: {token.SUB}, token.SUB: {token.ADD}, token.SHL: {token.SHR}, token.SHR: {token.SHL}, token.AND: {token.OR}, token.OR: {token.AND},
		token.MUL: {token.QUO}, token.REM: {token.QUO},
	}
	ast.Inspect(f, func(nd ast.Node) bool {
		switch x := nd.(type) {
		case *ast.GenDecl:
			if x.Tok == token.IMPORT {
				return false
			}
		case *ast.BinaryExpr:
			if x.Op == token.ADD {
				// string concatenation: skip when an operand is a string literal
				if l, ok := x.X.(*ast.BasicLit); ok && l.Kind == token.STRING {
					return true
				}
				if l, ok := x.Y.(*ast.BasicLit); ok && l.Kind == token.STRING {
					return true
				}
			}
			for _, to := range rel[x.Op] {
				be, from, to2 := x, x.Op, to
				add(be.OpPos, fmt.Sprintf("%s -> %s", from, to2), func() { be.Op = to2 })
			}
		case *ast.BasicLit:
			if x.Kind == token.INT {
				v, err := strconv.ParseInt(x.Value, 0, 64)
				if err == nil {
					bl := x
					add(bl.Pos(), fmt.Sprintf("literal %s -> %d", bl.Value, v+1), func() { bl.Value = strconv.FormatInt(v+1, 10) })
					if v > 0 {
						add(bl.Pos(), fmt.Sprintf("literal %s -> %d", bl.Value, v-1), func() { bl.Value = strconv.FormatInt(v-1, 10) })
					}
				}
			}
		case *ast.UnaryExpr:
			if x.Op == token.NOT {
				ue := x
				add(ue.Pos(), "remove !", func() { ue.X = &ast.UnaryExpr{Op: token.NOT, X: &ast.ParenExpr{X: ue.X}} })
			}
		case *ast.IfStmt:
			is := x
			add(is.Pos(), "if cond -> if true", func() { is.Cond = &ast.BinaryExpr{X: &ast.ParenExpr{X: is.Cond}, Op: token.LOR, Y: ast.NewIdent("true")} })
			add(is.Pos(), "if cond -> if false", func() { is.Cond = &ast.BinaryExpr{X: &ast.ParenExpr{X: is.Cond}, Op: token.LAND, Y: ast.NewIdent("false")} })
		case *ast.BlockStmt:
			for i, st := range x.List {
				i, x := i, x
				_ = x
				switch s := st.(type) {
				case *ast.AssignStmt:
					if s.Tok == token.DEFINE {
						continue // deleting a definition rarely compiles
					}
					add(s.Pos(), "delete assignment", func() { x.List[i] = &ast.EmptyStmt{Implicit: false} })
				case *ast.ExprStmt:
					add(s.Pos(), "delete call statement", func() { x.List[i] = &ast.EmptyStmt{} })
				case *ast.IncDecStmt:
					add(s.Pos(), "delete inc/dec", func() { x.List[i] = &ast.EmptyStmt{} })
				case *ast.DeferStmt:
					add(s.Pos(), "delete defer", func() { x.List[i] = &ast.EmptyStmt{} })
				}
			}
		}
		return true
	})
	if *list {
		fmt.Println(len(sites))
		return
	}
	if *n < 0 || *n >= len(sites) {
		fmt.Fprintln(os.Stderr, "no such site")
		os.Exit(2)
	}
	sites[*n].apply()
	fmt.Fprintln(os.Stderr, sites[*n].desc)
	if err := printer.Fprint(os.Stdout, fs, f); err != nil {
		fmt.Fprintln(os.Stderr, err)
		os.Exit(2)
	}
}
