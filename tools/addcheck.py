#!/usr/bin/env python3
"""addcheck.py <json-file-with-entries>: merges entries into checks.json"""
import json,sys
c=json.load(open('/verif/checks.json'))
c.update(json.load(open(sys.argv[1])))
json.dump(c,open('/verif/checks.json','w'),indent=1,ensure_ascii=False)
print(sorted(c))
