#!/usr/bin/env python3
"""Re-runs every seeded change under /verif/seeded/* against the current checks and appends the result to its meta.json.
usage: seedall.py <stage label> [--tier quick] [--also C14:C06-1,C09:C06-2 ...]"""
import json, glob, os, subprocess, sys
label = sys.argv[1]
tier = sys.argv[sys.argv.index("--tier") + 1] if "--tier" in sys.argv else "quick"
extra = {"C06-1": ["C14"], "C06-2": ["C09"], "C06-R2-1": ["C14"], "C13-R2-1": ["C09"], "C05-1": ["C08"], "C01-1": ["C12"], "C05-2": ["C12"]}
rows = []
for d in sorted(glob.glob("/verif/seeded/*/")):
    name = os.path.basename(d.rstrip("/"))
    meta = json.load(open(d + "meta.json"))
    checks = [meta["property"]] + extra.get(name, [])
    p = subprocess.run(["/verif/tools/seedeval.py", d, "--skip-verify", "--tier", tier, "--checks", ",".join(checks)], stdout=subprocess.PIPE, text=True)
    r = json.loads(p.stdout)
    meta.setdefault("results", [])
    meta["results"] = [x for x in meta["results"] if x.get("stage") != label]
    meta["results"].append({"stage": label, "tier": tier, "checks": r.get("checks"), "detected_by": r.get("detected_by")})
    json.dump(meta, open(d + "meta.json", "w"), indent=1, ensure_ascii=False)
    rows.append((name, r.get("detected_by")))
    print(name, r.get("detected_by"), flush=True)
missed = [n for n, dby in rows if not dby]
print("detected %d / %d; missed: %s" % (len(rows) - len(missed), len(rows), missed))
