#!/usr/bin/env python3
"""Regenerates the compact 'which check catches which seeded change' table in DESIGN.md (between the SEEDTABLE markers)
and seeded/RESULTS.md from /verif/seeded/*/meta.json."""
import json, glob, re, subprocess
rows = []; stats = {}
for d in sorted(glob.glob("/verif/seeded/C*/")):
    m = json.load(open(d + "meta.json"))
    res = m.get("results", [])
    fmt = lambda r: "-" if not r else (", ".join(r["detected_by"]) if r["detected_by"] else "**missed**")
    first = res[0] if res else None
    last = res[-1] if res else None
    s = m["summary"].replace("|", "/").replace("\n", " ")
    s = s[:150] + ("…" if len(s) > 150 else "")
    rnd = 6 if "-R6-" in m["id"] else 5 if "-R5-" in m["id"] else 4 if "-R4-" in m["id"] else 3 if "-R3-" in m["id"] else 2 if "-R2-" in m["id"] else 1
    st = stats.setdefault(rnd, [0, 0, 0]); st[0] += 1
    st[1] += bool(first and first["detected_by"]); st[2] += bool(last and last["detected_by"])
    rows.append("| %s | %s | %s | %s |" % (m["id"], s, fmt(first), fmt(last)))
table = "| change | what it does | first evaluation | now |\n|---|---|---|---|\n" + "\n".join(rows) + "\n"
p = "/verif/DESIGN.md"; s = open(p).read()
b, e = "<!-- SEEDTABLE-BEGIN -->", "<!-- SEEDTABLE-END -->"
i, j = s.index(b), s.index(e)
s = s[:i + len(b)] + "\n" + table + s[j:]
open(p, "w").write(s)
open("/verif/seeded/RESULTS.md", "w").write(subprocess.run(["/verif/tools/seedtable.py"], stdout=subprocess.PIPE, text=True).stdout)
print(stats)
