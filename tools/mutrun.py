#!/usr/bin/env python3
"""mutrun.py gen|eval ...
  gen  --per-file N --seed S --out DIR   : samples mutation sites of the anchor files, keeps those mutants that compile
                                            and pass the pinned 297-test baseline (survivors of the existing tests) as
                                            DIR/<id>/{patch.diff,meta.json}
  eval DIR --jobs J                      : runs, for each survivor, the quick checks of the properties anchored in the
                                            mutated file (isolated, tools/seediso.py); writes DIR/results.json
"""
import json, os, random, subprocess, sys, shutil, glob, queue
from concurrent.futures import ThreadPoolExecutor
ENV = dict(os.environ, GOFLAGS="-mod=mod", GOPROXY="off", GOSUMDB="off", GOTOOLCHAIN="local")
FILES = ["packet/reader.go", "packet/writer.go", "longsms.go", "batchencoder.go", "datacoding/gsm7encoding/gsm7.go", "smpp/pdu_tlv.go",
         "smgp/options.go", "cmpp/msgid.go", "smpp/util.go", "smpp/smpp34/delivery_receipt.go", "codec/cmpp.go", "codec/smpp.go",
         "smgp/smgp30/pdu_deliver.go", "smgp/smgp30/pdu_submit.go", "cmpp/cmpp20/pdu_submit.go", "cmpp/cmpp20/pdu_deliver.go", "cmpp/cmpp30/pdu_submit.go",
         "smpp/smpp34/pdu_submit_sm.go", "smpp/smpp34/pdu_deliver_sm.go", "smpp/smpp34/pdu_bind.go", "sgip/sgip12/pdu_submit.go", "sgip/sgip12/pdu_deliver.go",
         "cmpp/cmpputil.go", "cmpp/utils.go", "cmpp/header.go", "smpp/pdu_header.go", "sgip/header.go", "smgp/header.go", "cmpp/delivey_content.go",
         "smgp/smgp30/utils.go", "cmpp/cmpp20/utils.go", "smpp/smpp34/smpp34.go", "datacoding/codec_smpp.go", "datacoding/codec_cmpp.go",
         "datacoding/ucs2.go", "datacoding/gb18030.go", "datacoding/latin1.go", "datacoding/ascii.go", "datacoding/gsm7_packed.go", "datacoding/gsm7_unpacked.go",
         "cmpp/cmpp20/pdu_connect.go", "smgp/smgp30/pdu_login.go", "packet/stringer.go"]
def sh(cmd, cwd=None, timeout=1800):
    p = subprocess.run(cmd, cwd=cwd, env=ENV, stdout=subprocess.PIPE, stderr=subprocess.STDOUT, text=True, errors="replace", timeout=timeout)
    return p.returncode, p.stdout
def anchors():
    m = {}
    for l in open("/verif/properties.jsonl"):
        p = json.loads(l)
        for f in p["anchors"]["files"]:
            m.setdefault(f, []).append(p["id"])
    return m
def gen(a):
    per = int(a[a.index("--per-file") + 1]); seed = int(a[a.index("--seed") + 1]); out = a[a.index("--out") + 1]
    jobs = int(a[a.index("--jobs") + 1]) if "--jobs" in a else 6
    os.makedirs(out, exist_ok=True)
    rnd = random.Random(seed)
    todo = []
    for f in FILES:
        rc, o = sh(["/tmp/mutate", "-list", "/repo/" + f])
        n = int(o.strip() or 0)
        k = per * 3 if "gsm7encoding" in f else per
        for s in sorted(rnd.sample(range(n), min(n, k))):
            todo.append((f, s))
    slots = queue.Queue()
    for i in range(jobs):
        wt = "/tmp/mutwt%d" % i
        sh(["git", "-C", "/repo", "worktree", "remove", "--force", wt]); shutil.rmtree(wt, ignore_errors=True)
        sh(["git", "-C", "/repo", "worktree", "add", "-q", "--detach", wt, "HEAD"])
        slots.put(wt)
    def one(job):
        f, s = job
        wt = slots.get()
        try:
            sh(["git", "checkout", "--", "."], cwd=wt)
            p = subprocess.run(["/tmp/mutate", "-n", str(s), "/repo/" + f], stdout=subprocess.PIPE, stderr=subprocess.PIPE, text=True)
            if p.returncode != 0:
                return (f, s, "nomutant", "")
            desc = p.stderr.strip().replace("/repo/", "")
            open(os.path.join(wt, f), "w").write(p.stdout)
            sh(["gofmt", "-w", f], cwd=wt)
            rc, o = sh(["go", "build", "./..."], cwd=wt)
            if rc != 0:
                return (f, s, "nocompile", desc)
            rc, o = sh(["go", "vet", "-tags", "verif", "./packet", "./cmpp"], cwd=wt)
            rc, o = sh(["/verif/tools/baseline.py", wt], timeout=2400)
            if rc != 0:
                return (f, s, "killed-by-existing-tests", desc)
            rc, diff = sh(["git", "diff"], cwd=wt)
            mid = "M-%s-%d" % (f.replace("/", "_").replace(".go", ""), s)
            d = os.path.join(out, mid)
            os.makedirs(d, exist_ok=True)
            open(os.path.join(d, "patch.diff"), "w").write(diff)
            json.dump({"id": mid, "file": f, "site": s, "summary": desc, "property": ""}, open(os.path.join(d, "meta.json"), "w"), indent=1)
            return (f, s, "survivor", desc)
        finally:
            sh(["git", "checkout", "--", "."], cwd=wt)
            slots.put(wt)
    stats = {}
    with ThreadPoolExecutor(jobs) as ex:
        for f, s, st, desc in ex.map(one, todo):
            stats[st] = stats.get(st, 0) + 1
            print(st, desc or (f, s), flush=True)
    for i in range(jobs):
        sh(["git", "-C", "/repo", "worktree", "remove", "--force", "/tmp/mutwt%d" % i])
    json.dump(stats, open(os.path.join(out, "gen_stats.json"), "w"), indent=1)
    print(stats)
def evaluate(a):
    out = a[0]; jobs = int(a[a.index("--jobs") + 1]) if "--jobs" in a else 4
    anc = anchors()
    dirs = sorted(d for d in glob.glob(os.path.join(out, "M-*")) if os.path.isdir(d))
    respath = os.path.join(out, "results.json")
    results = json.load(open(respath)) if os.path.exists(respath) else {}
    slots = queue.Queue()
    for i in range(jobs):
        slots.put(30 + i)
    def one(d):
        m = json.load(open(os.path.join(d, "meta.json")))
        if m["id"] in results:
            return m["id"], results[m["id"]]
        checks = sorted(set(anc.get(m["file"], [])))
        if not checks:
            return m["id"], {"checks": {}, "detected_by": [], "note": "file is not an anchor of any property"}
        s = slots.get()
        try:
            p = subprocess.run(["/verif/tools/seediso.py", d, "--slot", str(s), "--checks", ",".join(checks)], stdout=subprocess.PIPE, text=True, errors="replace")
        finally:
            slots.put(s)
        try:
            r = json.loads(p.stdout)
        except Exception:
            r = {"error": p.stdout[-300:], "checks": {}, "detected_by": []}
        return m["id"], {"summary": m["summary"], "checks": {c: x["exit"] for c, x in r.get("checks", {}).items()}, "detected_by": r.get("detected_by", []), "error": r.get("error", "")}
    with ThreadPoolExecutor(jobs) as ex:
        for mid, r in ex.map(one, dirs):
            results[mid] = r
            print(mid, r.get("detected_by"), r.get("summary", "")[:90], r.get("error", ""), flush=True)
            json.dump(results, open(respath, "w"), indent=1)
    det = sum(1 for r in results.values() if r.get("detected_by"))
    print("detected %d / %d surviving mutants" % (det, len(results)))
if not os.path.exists("/tmp/mutate"):
    subprocess.run(["go", "build", "-o", "/tmp/mutate", "."], cwd="/verif/tools/mutate", env=ENV, check=True)
if sys.argv[1] == "gen":
    gen(sys.argv[2:])
else:
    evaluate(sys.argv[2:])
